// Package kit is the deterministic-simulation toolkit used by every check in
// /verif: seeded splittable PRNG, lockstep scheduler (engine A), simulated
// transport, event log, shrinker and worker protocol.
package kit

import (
	"encoding/binary"
	"hash/fnv"
)

// Rng is a SplitMix64 generator. Every choice of a simulated run is drawn
// from an Rng derived from the run's seed; sub-streams are derived by label so
// that draws are independent of the order in which components ask.
type Rng struct{ s uint64 }

func NewRng(seed uint64) *Rng { return &Rng{s: seed ^ 0x9e3779b97f4a7c15} }

func (r *Rng) Uint64() uint64 {
	r.s += 0x9e3779b97f4a7c15
	z := r.s
	z = (z ^ (z >> 30)) * 0xbf58476d1ce4e5b9
	z = (z ^ (z >> 27)) * 0x94d049bb133111eb
	return z ^ (z >> 31)
}

// Derive returns an independent stream identified by label.
func (r *Rng) Derive(label string) *Rng {
	h := fnv.New64a()
	var b [8]byte
	binary.LittleEndian.PutUint64(b[:], r.s)
	h.Write(b[:])
	h.Write([]byte(label))
	n := NewRng(h.Sum64())
	n.Uint64()
	return n
}

// Intn returns a value in [0,n). n<=0 returns 0.
func (r *Rng) Intn(n int) int {
	if n <= 1 {
		return 0
	}
	return int(r.Uint64() % uint64(n))
}

// Range returns a value in [lo,hi].
func (r *Rng) Range(lo, hi int) int {
	if hi <= lo {
		return lo
	}
	return lo + r.Intn(hi-lo+1)
}

func (r *Rng) Bool() bool { return r.Uint64()&1 == 1 }

// Chance is true with probability num/den.
func (r *Rng) Chance(num, den int) bool { return r.Intn(den) < num }

func (r *Rng) Float() float64 { return float64(r.Uint64()>>11) / (1 << 53) }

func (r *Rng) Bytes(n int) []byte {
	b := make([]byte, n)
	r.Fill(b)
	return b
}

func (r *Rng) Fill(b []byte) {
	for i := 0; i < len(b); {
		v := r.Uint64()
		for k := 0; k < 8 && i < len(b); k++ {
			b[i] = byte(v)
			v >>= 8
			i++
		}
	}
}

// Perm returns a permutation of 0..n-1.
func (r *Rng) Perm(n int) []int {
	p := make([]int, n)
	for i := range p {
		p[i] = i
	}
	for i := n - 1; i > 0; i-- {
		j := r.Intn(i + 1)
		p[i], p[j] = p[j], p[i]
	}
	return p
}

// Pick returns one element index weighted by w.
func (r *Rng) Pick(w []int) int {
	t := 0
	for _, x := range w {
		t += x
	}
	if t <= 0 {
		return 0
	}
	v := r.Intn(t)
	for i, x := range w {
		if v < x {
			return i
		}
		v -= x
	}
	return len(w) - 1
}

// Reader is a seeded entropy source suitable for tls.Config.Rand and
// crypto APIs. A 1-byte read returns a constant and does not advance the
// stream: crypto/internal/randutil.MaybeReadByte reads one byte with
// probability 1/2 chosen by the Go runtime, which would otherwise make the
// stream position (and everything derived from it) irreproducible.
type Reader struct {
	r     *Rng
	Count int // bytes handed out (excluding 1-byte reads)
	Log   []byte
	Keep  bool // record every byte handed out in Log
}

func NewReader(r *Rng) *Reader { return &Reader{r: r} }

func (e *Reader) Read(p []byte) (int, error) {
	if len(p) == 1 {
		p[0] = 0x5a
		return 1, nil
	}
	e.r.Fill(p)
	e.Count += len(p)
	if e.Keep {
		e.Log = append(e.Log, p...)
	}
	return len(p), nil
}

// Hash64 is FNV-1a over the given byte slices, used for event-log and
// scenario hashes.
type Hash64 struct{ h uint64 }

func NewHash64() *Hash64 { return &Hash64{h: 0xcbf29ce484222325} }
func (h *Hash64) Write(b []byte) {
	for _, c := range b {
		h.h ^= uint64(c)
		h.h *= 0x100000001b3
	}
}
func (h *Hash64) WriteString(s string) { h.Write([]byte(s)); h.Write([]byte{0}) }
func (h *Hash64) WriteU64(v uint64) {
	var b [8]byte
	binary.LittleEndian.PutUint64(b[:], v)
	h.Write(b[:])
}
func (h *Hash64) Sum() uint64 { return h.h }
