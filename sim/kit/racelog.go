package kit

import (
	"fmt"
	"os"
	"sort"
	"strings"
)

// Race-detector report capture for engine B. The driver starts race-enabled
// workers with GORACE="halt_on_error=0 log_path=<p>" and VERIF_RACE_LOG=<p>;
// the runtime appends reports to <p>.<pid>. RaceDelta returns what was added
// since the previous call, parsed and attributed.

type RaceReport struct {
	Text      string
	Sig       string // unordered pair of innermost /repo frames: "file:func <-> file:func"
	InRepo    bool   // both accesses have a frame under /repo/
	InHarness bool   // one of the conflicting accesses is itself harness code
}

var raceOffset int64

// RepoPrefix is the source path prefix of the tree under test ("/repo/" unless
// the driver was pointed at a scratch worktree through VERIF_REPO).
func RepoPrefix() string {
	if p := os.Getenv("VERIF_REPO"); p != "" {
		return strings.TrimRight(p, "/") + "/"
	}
	return "/repo/"
}

func raceLogPath() string {
	p := os.Getenv("VERIF_RACE_LOG")
	if p == "" {
		return ""
	}
	return fmt.Sprintf("%s.%d", p, os.Getpid())
}

// RaceEnabledLog reports whether race reports are being captured.
func RaceEnabledLog() bool { return raceLogPath() != "" }

func RaceDelta() []RaceReport {
	p := raceLogPath()
	if p == "" {
		return nil
	}
	b, err := os.ReadFile(p)
	if err != nil || int64(len(b)) <= raceOffset {
		return nil
	}
	txt := string(b[raceOffset:])
	raceOffset = int64(len(b))
	return ParseRaceReports(txt)
}

type frame struct{ fn, file string }

func ParseRaceReports(txt string) []RaceReport {
	var out []RaceReport
	for _, blk := range strings.Split(txt, "==================") {
		if !strings.Contains(blk, "WARNING: DATA RACE") {
			continue
		}
		lines := strings.Split(blk, "\n")
		var accesses [][]frame
		var cur []frame
		inAccess := false
		flush := func() {
			if inAccess {
				accesses = append(accesses, cur)
			}
			cur = nil
			inAccess = false
		}
		for i := 0; i < len(lines); i++ {
			l := lines[i]
			t := strings.TrimSpace(l)
			switch {
			case strings.HasPrefix(t, "Read at"), strings.HasPrefix(t, "Write at"), strings.HasPrefix(t, "Previous read at"),
				strings.HasPrefix(t, "Previous write at"), strings.HasPrefix(t, "Atomic read at"), strings.HasPrefix(t, "Atomic write at"),
				strings.HasPrefix(t, "Previous atomic read at"), strings.HasPrefix(t, "Previous atomic write at"):
				flush()
				inAccess = true
			case strings.HasPrefix(t, "Goroutine ") || t == "":
				if t != "" || inAccess && len(cur) > 0 {
					flush()
				}
			default:
				if inAccess && strings.HasPrefix(l, "  ") && !strings.HasPrefix(l, "      ") && i+1 < len(lines) {
					file := strings.TrimSpace(lines[i+1])
					if k := strings.Index(file, " +0x"); k >= 0 {
						file = file[:k]
					}
					cur = append(cur, frame{fn: t, file: file})
					i++
				}
			}
		}
		flush()
		rep := RaceReport{Text: strings.TrimSpace(blk)}
		if len(accesses) >= 2 {
			var tops []string
			rep.InRepo = true
			for _, acc := range accesses[:2] {
				top := ""
				for _, f := range acc {
					if strings.HasPrefix(f.file, RepoPrefix()) {
						fn := f.fn
						if k := strings.LastIndex(fn, "("); k > 0 {
							fn = fn[:k]
						}
						file := f.file
						if k := strings.LastIndex(file, ":"); k > 0 {
							file = file[:k]
						}
						top = strings.TrimPrefix(file, RepoPrefix()) + ":" + fn[strings.LastIndex(fn, "/")+1:]
						break
					}
				}
				if top == "" {
					rep.InRepo = false
				}
				tops = append(tops, top)
				// innermost frame that is not runtime / standard library
				for _, f := range acc {
					if strings.Contains(f.file, "/src/runtime/") || strings.Contains(f.file, "/src/sync/") || strings.Contains(f.file, "/src/internal/") {
						continue
					}
					if strings.HasPrefix(f.file, "/verif/") {
						rep.InHarness = true
					}
					break
				}
			}
			sort.Strings(tops)
			rep.Sig = strings.Join(tops, " <-> ")
		}
		out = append(out, rep)
	}
	return out
}
