package kit

import (
	"fmt"
	"regexp"
	"runtime"
	"strings"
	"time"
)

// WatchMutexStall runs f on its own goroutine and returns "" when f returns.
//
// A goroutine parked on a real sync.Mutex is not "durably blocked" for
// testing/synctest, so a lock that is never released makes a bubble hang
// instead of ending in the deadlock panic. This watcher decides that case
// exactly rather than by a timeout: while f runs it takes stop-the-world stack
// snapshots (runtime.Stack with all=true is one consistent cut) and reports a
// stall only when
//
//   - at least one goroutine has a frame whose function name contains marker, and
//   - every such goroutine is in the scheduler's waiting state "sync.Mutex.Lock"
//     (not runnable, not running), in two consecutive snapshots with the same
//     goroutine ids.
//
// For code whose mutex is only ever taken and released inside functions carrying
// the marker (and that never blocks on anything else while holding it) this
// means that no goroutine exists that could release the mutex: whoever holds it
// has left the marked code with the lock held. A waiter that has just been
// handed the lock is "runnable", and an unlocker is still inside the marked code,
// so neither can be mistaken for a stall. The poll interval only bounds how
// soon a stall is noticed. On a stall the goroutines of f are abandoned
// (they can never run again) and a description is returned.
func WatchMutexStall(marker string, f func()) (stall string) {
	done := make(chan struct{})
	go func() {
		defer close(done)
		f()
	}()
	poll := 50 * time.Millisecond
	prev := ""
	tm := time.NewTimer(poll)
	defer tm.Stop()
	for {
		select {
		case <-done:
			return ""
		case <-tm.C:
		}
		ids, desc := mutexStallSnapshot(marker)
		if ids != "" && ids == prev {
			for _, id := range strings.Split(ids, ",") {
				abandoned[id] = true
			}
			return desc
		}
		prev = ids
		if poll < time.Second {
			poll *= 2
		}
		tm.Reset(poll)
	}
}

// goroutines abandoned by earlier stall reports of this process: they stay parked for ever and say nothing about a later run
var abandoned = map[string]bool{}

var goroutineHeader = regexp.MustCompile(`^goroutine (\d+) \[([^\]]*)\]:`)

func mutexStallSnapshot(marker string) (ids, desc string) {
	buf := make([]byte, 1<<20)
	for {
		n := runtime.Stack(buf, true)
		if n < len(buf) {
			buf = buf[:n]
			break
		}
		buf = make([]byte, 2*len(buf))
	}
	var waiting []string
	var first string
	for _, g := range strings.Split(string(buf), "\n\n") {
		if !strings.Contains(g, marker) {
			continue
		}
		m := goroutineHeader.FindStringSubmatch(g)
		if m == nil {
			return "", ""
		}
		if abandoned[m[1]] {
			continue
		}
		if !strings.HasPrefix(m[2], "sync.Mutex.Lock") {
			return "", "" // someone inside the marked code can still run
		}
		waiting = append(waiting, m[1])
		if first == "" {
			first = g
		}
	}
	if len(waiting) == 0 {
		return "", ""
	}
	ids = strings.Join(waiting, ",")
	return ids, fmt.Sprintf("%d goroutine(s) wait for a mutex inside %s and no goroutine inside that code can run to release it; one of them:\n%.1500s", len(waiting), marker, first)
}
