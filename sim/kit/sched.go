package kit

import (
	"container/heap"
	"fmt"
	"runtime/debug"
	"sort"
	"strings"
	"time"
)

// Engine A: lockstep scheduler. Exactly one task runs at a time; tasks hand
// the token back at scheduling points (transport calls, lock operations,
// explicit yields). The scheduler chooses the next task from the schedule
// tape or from a seeded PRNG, and advances simulated time by jumping to the
// next pending event when nothing is runnable. It is meant to run as the
// root goroutine of a testing/synctest bubble so that time.Now() inside the
// code under test reads the same simulated clock.

type Task struct {
	ID   int
	Name string

	wake     chan struct{}
	done     bool
	started  bool
	point    string
	enabled  func() bool
	deadline time.Duration // 0 = none; absolute sim time at which the task becomes enabled regardless
	PanicVal any
	Stack    string
	fn       func()
}

type event struct {
	at  time.Duration
	seq uint64
	run func()
}
type eventHeap []event

func (h eventHeap) Len() int { return len(h) }
func (h eventHeap) Less(i, j int) bool {
	if h[i].at != h[j].at {
		return h[i].at < h[j].at
	}
	return h[i].seq < h[j].seq
}
func (h eventHeap) Swap(i, j int) { h[i], h[j] = h[j], h[i] }
func (h *eventHeap) Push(x any)   { *h = append(*h, x.(event)) }
func (h *eventHeap) Pop() any {
	o := *h
	n := len(o)
	e := o[n-1]
	*h = o[:n-1]
	return e
}

type Sim struct {
	Rng        *Rng // root stream of the run (components derive sub-streams)
	sched      *Rng
	Tape       []int // schedule tape to follow (task IDs at choice points)
	TapeOnly   bool  // after the tape ends choose the lowest enabled task instead of drawing
	Recorded   []int // choices actually made
	Stickiness int   // percent chance to keep running the previous task when it is enabled

	tasks   []*Task
	cur     *Task
	last    *Task
	events  eventHeap
	now     time.Duration
	epoch   time.Time
	seq     uint64
	yieldCh chan *Task

	Steps    int
	MaxSteps int
	MaxTime  time.Duration
	InBubble bool // advance the real (bubble) clock together with simulated time

	aborting   bool
	Deadlock   []string // blocking points of tasks stuck when nothing was runnable and no event pending
	StepCapHit bool
	TimeCapHit bool

	log      *Hash64
	KeepLog  bool
	LogLines []string

	Counters   map[string]int
	ChoicePts  int
	MultiSteps int // steps at which more than one task was enabled
}

func NewSim(rng *Rng) *Sim {
	return &Sim{
		Rng:      rng,
		sched:    rng.Derive("sched"),
		yieldCh:  make(chan *Task),
		MaxSteps: 20000,
		MaxTime:  10 * time.Minute,
		log:      NewHash64(),
		Counters: map[string]int{},
		epoch:    time.Now(),
	}
}

// Now is the simulated wall clock.
func (s *Sim) Now() time.Time { return s.epoch.Add(s.now) }

// Elapsed is simulated time since the start of the run.
func (s *Sim) Elapsed() time.Duration { return s.now }

func (s *Sim) Seq() uint64 { s.seq++; return s.seq }

func (s *Sim) Count(name string) { s.Counters[name]++ }

func (s *Sim) Logf(format string, a ...any) {
	line := fmt.Sprintf(format, a...)
	s.log.WriteString(line)
	if s.KeepLog {
		s.LogLines = append(s.LogLines, fmt.Sprintf("t=%v %s", s.now, line))
	}
}

func (s *Sim) LogHash() uint64 { return s.log.Sum() }

func (s *Sim) Aborting() bool { return s.aborting }

// InTask reports whether the caller runs inside a scheduled task.
func (s *Sim) InTask() bool { return s.cur != nil }

// Go registers a task. It may be called before Run or from a running task.
func (s *Sim) Go(name string, f func()) *Task {
	t := &Task{ID: len(s.tasks), Name: name, wake: make(chan struct{}), fn: f, point: "start"}
	s.tasks = append(s.tasks, t)
	return t
}

func (s *Sim) start(t *Task) {
	t.started = true
	go func() {
		<-t.wake
		defer func() {
			if r := recover(); r != nil {
				if _, ok := r.(abortSignal); !ok {
					t.PanicVal = r
					t.Stack = string(debug.Stack())
				}
			}
			t.done = true
			s.yieldCh <- t
		}()
		t.fn()
	}()
}

type abortSignal struct{}

// After schedules f to run in scheduler context after d of simulated time.
func (s *Sim) After(d time.Duration, f func()) {
	if d < 0 {
		d = 0
	}
	s.seq++
	heap.Push(&s.events, event{s.now + d, s.seq, f})
}

// Yield is an always-enabled scheduling point.
func (s *Sim) Yield(point string) {
	s.Block(point, nil, 0)
}

// Block parks the calling task until enabled() is true or the absolute
// simulated time deadline (if non-zero) is reached. It must be called from a
// task. It returns immediately while the simulation is being torn down.
func (s *Sim) Block(point string, enabled func() bool, deadline time.Duration) {
	t := s.cur
	if t == nil {
		panic("kit: Block called outside a task: " + point)
	}
	if s.aborting {
		return
	}
	t.point = point
	t.enabled = enabled
	t.deadline = deadline
	s.yieldCh <- t
	<-t.wake
	t.enabled = nil
	t.deadline = 0
}

// Sleep parks the calling task for d of simulated time.
func (s *Sim) Sleep(d time.Duration) {
	until := s.now + d
	s.Block("sleep", func() bool { return s.now >= until }, until)
}

func (t *Task) isEnabled(now time.Duration) bool {
	if t.done {
		return false
	}
	if t.enabled == nil {
		return true
	}
	if t.deadline != 0 && now >= t.deadline {
		return true
	}
	return t.enabled()
}

// Run executes tasks until all are done, a cap is hit, or a deadlock is found.
func (s *Sim) Run() {
	for {
		var en []*Task
		unfinished := 0
		for _, t := range s.tasks {
			if t.done {
				continue
			}
			unfinished++
			if t.isEnabled(s.now) {
				en = append(en, t)
			}
		}
		if unfinished == 0 {
			break
		}
		if s.Steps >= s.MaxSteps {
			s.StepCapHit = true
			s.abort()
			break
		}
		if len(en) == 0 {
			// advance time to the next event or task deadline
			next := time.Duration(-1)
			if len(s.events) > 0 {
				next = s.events[0].at
			}
			for _, t := range s.tasks {
				if !t.done && t.deadline != 0 && t.deadline > s.now && (next < 0 || t.deadline < next) {
					next = t.deadline
				}
			}
			if next < 0 {
				for _, t := range s.tasks {
					if !t.done {
						s.Deadlock = append(s.Deadlock, t.Name+"@"+t.point)
					}
				}
				s.Logf("deadlock %s", strings.Join(s.Deadlock, ","))
				s.abort()
				break
			}
			if next > s.MaxTime {
				s.TimeCapHit = true
				s.abort()
				break
			}
			s.advance(next)
			for len(s.events) > 0 && s.events[0].at <= s.now {
				ev := heap.Pop(&s.events).(event)
				ev.run()
			}
			continue
		}
		// events due now run before any task step
		if len(s.events) > 0 && s.events[0].at <= s.now {
			for len(s.events) > 0 && s.events[0].at <= s.now {
				ev := heap.Pop(&s.events).(event)
				ev.run()
			}
			continue
		}
		t := s.choose(en)
		s.Steps++
		s.Logf("step %d %s %s", s.Steps, t.Name, t.point)
		s.dispatch(t)
	}
}

func (s *Sim) advance(to time.Duration) {
	if to <= s.now {
		return
	}
	d := to - s.now
	if s.InBubble {
		time.Sleep(d)
	}
	s.now = to
}

func (s *Sim) choose(en []*Task) *Task {
	if len(en) == 1 {
		s.last = en[0]
		return en[0]
	}
	s.MultiSteps++
	k := s.ChoicePts
	s.ChoicePts++
	var pick *Task
	if k < len(s.Tape) {
		for _, t := range en {
			if t.ID == s.Tape[k] {
				pick = t
			}
		}
		if pick == nil {
			pick = en[0]
		}
	} else if s.TapeOnly {
		pick = en[0]
	} else {
		if s.Stickiness > 0 && s.last != nil && s.sched.Intn(100) < s.Stickiness {
			for _, t := range en {
				if t == s.last {
					pick = t
				}
			}
		}
		if pick == nil {
			pick = en[s.sched.Intn(len(en))]
		}
	}
	s.Recorded = append(s.Recorded, pick.ID)
	s.last = pick
	return pick
}

func (s *Sim) dispatch(t *Task) {
	s.cur = t
	if !t.started {
		s.start(t)
	}
	t.wake <- struct{}{}
	<-s.yieldCh
	s.cur = nil
}

// abort unwinds every unfinished task: scheduling points return immediately
// and simulated transports report errors, so the code under test runs to
// completion through its error paths, one task at a time.
func (s *Sim) abort() {
	s.aborting = true
	for _, t := range s.tasks {
		if t.done {
			continue
		}
		if !t.started {
			t.done = true
			continue
		}
		s.cur = t
		t.wake <- struct{}{}
		for {
			u := <-s.yieldCh
			if u == t && t.done {
				break
			}
		}
		s.cur = nil
	}
}

// Unfinished lists tasks that had not returned when the run stopped.
func (s *Sim) Panics() []*Task {
	var r []*Task
	for _, t := range s.tasks {
		if t.PanicVal != nil {
			r = append(r, t)
		}
	}
	return r
}

// TapeHash identifies the interleaving of a run.
func (s *Sim) TapeHash() uint64 {
	h := NewHash64()
	for _, c := range s.Recorded {
		h.WriteU64(uint64(c))
	}
	return h.Sum()
}

func SortedKeys(m map[string]int) []string {
	k := make([]string, 0, len(m))
	for x := range m {
		k = append(k, x)
	}
	sort.Strings(k)
	return k
}
