package kit

import (
	"encoding/asn1"
	"crypto"
	"crypto/ecdsa"
	"crypto/ed25519"
	"crypto/rsa"
	stdx509 "crypto/x509"
	"crypto/x509/pkix"
	_ "embed"
	"encoding/pem"
	"fmt"
	"io"
	"math/big"
	"net"
	"sync"
	"time"

	zrsa "github.com/zmap/zcrypto/rsa"
)

//go:embed keys/keys.pem
var keysPEM []byte

var (
	keyOnce sync.Once
	keyPool map[string]crypto.Signer
)

// Key returns a key of the committed pool (rsa0-5, p256_0-15, p384_0-2, ed0-3).
func Key(name string) crypto.Signer {
	keyOnce.Do(func() {
		keyPool = map[string]crypto.Signer{}
		rest := keysPEM
		for {
			var b *pem.Block
			b, rest = pem.Decode(rest)
			if b == nil {
				break
			}
			k, err := stdx509.ParsePKCS8PrivateKey(b.Bytes)
			if err != nil {
				panic(err)
			}
			keyPool[b.Headers["Name"]] = k.(crypto.Signer)
		}
	})
	k, ok := keyPool[name]
	if !ok {
		panic("kit: no key " + name)
	}
	return k
}

// DetSigner signs without consuming caller entropy, so that signatures (and
// with them message lengths and the whole schedule) are a function of the
// scenario alone: ECDSA via RFC 6979 (rand == nil), RSA PKCS#1 v1.5 and
// Ed25519 are deterministic by construction, RSA-PSS draws its salt from a
// fixed stream.
type DetSigner struct {
	crypto.Signer
}

type zeroReader struct{}

func (zeroReader) Read(p []byte) (int, error) {
	for i := range p {
		p[i] = 0x42
	}
	return len(p), nil
}

func (d DetSigner) Sign(_ io.Reader, digest []byte, opts crypto.SignerOpts) ([]byte, error) {
	switch k := d.Signer.(type) {
	case *ecdsa.PrivateKey:
		return k.Sign(nil, digest, opts)
	case *rsa.PrivateKey:
		return k.Sign(zeroReader{}, digest, opts)
	case ed25519.PrivateKey:
		return k.Sign(nil, digest, opts)
	}
	return d.Signer.Sign(zeroReader{}, digest, opts)
}

// Decrypt makes DetSigner usable as the server key for RSA key exchange.
func (d DetSigner) Decrypt(rand io.Reader, msg []byte, opts crypto.DecrypterOpts) ([]byte, error) {
	if k, ok := d.Signer.(crypto.Decrypter); ok {
		return k.Decrypt(rand, msg, opts)
	}
	return nil, fmt.Errorf("kit: key cannot decrypt")
}

// CertSpec describes one certificate of a simulated PKI.
type CertSpec struct {
	Name       string // common name
	Key        string // key pool name of the subject key
	Issuer     *Cert  // nil = self-signed
	IssuerKey  string // override signing key (for bad signatures / cross-signs); default Issuer's key
	IsCA       bool
	MaxPathLen int // -1 = unlimited (only when IsCA)
	NotBefore  time.Time
	NotAfter   time.Time
	DNSNames   []string
	IPs        []net.IP
	Serial     int64
	ClientAuth bool
	SubjectOrg string // optional O= to distinguish same-CN subjects
	OCSPSigner bool
	SKI        []byte
	NoAKI      bool
	UnknownEKU bool // the extended key usage extension lists one private OID only
	KeyUsage   int  // nonzero: the keyUsage bits (stdx509.KeyUsage) instead of the default for the certificate kind
	EmailEKU   bool // a CA certificate whose extended key usage lists emailProtection only
	UTF8Subject bool // the subject's common name is encoded as UTF8String although it is printable ASCII (what OpenSSL emits)
}

type Cert struct {
	Spec CertSpec
	DER  []byte
	Std  *stdx509.Certificate
	Key  crypto.Signer
}

var SimEpoch = time.Date(2000, 1, 1, 0, 0, 0, 0, time.UTC) // synctest bubbles start here

// MakeCert builds a certificate deterministically with the standard library.
func MakeCert(sp CertSpec) *Cert {
	key := Key(sp.Key)
	if sp.NotBefore.IsZero() {
		sp.NotBefore = time.Date(1990, 1, 1, 0, 0, 0, 0, time.UTC)
	}
	if sp.NotAfter.IsZero() {
		sp.NotAfter = time.Date(2090, 1, 1, 0, 0, 0, 0, time.UTC)
	}
	if sp.Serial == 0 {
		sp.Serial = 1
	}
	subj := pkix.Name{CommonName: sp.Name}
	if sp.SubjectOrg != "" {
		subj.Organization = []string{sp.SubjectOrg}
	}
	t := &stdx509.Certificate{
		SerialNumber:          big.NewInt(sp.Serial),
		Subject:               subj,
		NotBefore:             sp.NotBefore,
		NotAfter:              sp.NotAfter,
		DNSNames:              sp.DNSNames,
		IPAddresses:           sp.IPs,
		BasicConstraintsValid: true,
		IsCA:                  sp.IsCA,
		SubjectKeyId:          sp.SKI,
	}
	if sp.IsCA {
		t.KeyUsage = stdx509.KeyUsageCertSign | stdx509.KeyUsageCRLSign | stdx509.KeyUsageDigitalSignature
		if sp.MaxPathLen >= 0 {
			t.MaxPathLen = sp.MaxPathLen
			t.MaxPathLenZero = sp.MaxPathLen == 0
		} else {
			t.MaxPathLen = -1
		}
	} else {
		t.KeyUsage = stdx509.KeyUsageDigitalSignature | stdx509.KeyUsageKeyEncipherment
		t.ExtKeyUsage = []stdx509.ExtKeyUsage{stdx509.ExtKeyUsageServerAuth}
		if sp.ClientAuth {
			t.ExtKeyUsage = append(t.ExtKeyUsage, stdx509.ExtKeyUsageClientAuth)
		}
		if sp.OCSPSigner {
			t.ExtKeyUsage = []stdx509.ExtKeyUsage{stdx509.ExtKeyUsageOCSPSigning}
		}
		if sp.UnknownEKU {
			t.ExtKeyUsage = nil
			t.UnknownExtKeyUsage = []asn1.ObjectIdentifier{{1, 3, 6, 1, 4, 1, 99999, 7}}
		}
	}
	if sp.UTF8Subject {
		cn := append([]byte{0x0c, byte(len(sp.Name))}, sp.Name...)
		atv := append([]byte{0x06, 0x03, 0x55, 0x04, 0x03}, cn...)
		atv = append([]byte{0x30, byte(len(atv))}, atv...)
		set := append([]byte{0x31, byte(len(atv))}, atv...)
		t.RawSubject = append([]byte{0x30, byte(len(set))}, set...)
	}
	if sp.KeyUsage != 0 {
		t.KeyUsage = stdx509.KeyUsage(sp.KeyUsage)
	}
	if sp.EmailEKU {
		t.ExtKeyUsage = []stdx509.ExtKeyUsage{stdx509.ExtKeyUsageEmailProtection}
	}
	parent := t
	signKey := key
	if sp.Issuer != nil {
		parent = sp.Issuer.Std
		signKey = sp.Issuer.Key
	}
	if sp.IssuerKey != "" {
		signKey = Key(sp.IssuerKey)
		// CreateCertificate refuses a signer that does not match parent.PublicKey; a deliberately
		// wrong signing key therefore needs a parent copy without the key
		pc := *parent
		pc.PublicKey = nil
		parent = &pc
	}
	if sp.NoAKI {
		// CreateCertificate copies parent.SubjectKeyId into AKI; use a parent copy without it
		pc := *parent
		pc.SubjectKeyId = nil
		parent = &pc
	}
	der, err := stdx509.CreateCertificate(zeroReader{}, t, parent, key.Public(), DetSigner{signKey})
	if err != nil {
		panic(fmt.Sprintf("kit: MakeCert %s: %v", sp.Name, err))
	}
	std, err := stdx509.ParseCertificate(der)
	if err != nil {
		panic(err)
	}
	return &Cert{Spec: sp, DER: der, Std: std, Key: key}
}

func PEMCert(der []byte) []byte {
	return pem.EncodeToMemory(&pem.Block{Type: "CERTIFICATE", Bytes: der})
}

// ZRSA converts a standard-library RSA key to zcrypto's RSA fork, which is
// the concrete type zcrypto's TLS stack expects.
func ZRSA(k *rsa.PrivateKey) *zrsa.PrivateKey {
	z := &zrsa.PrivateKey{
		PublicKey: zrsa.PublicKey{N: k.N, E: big.NewInt(int64(k.E))},
		D:         k.D,
		Primes:    k.Primes,
	}
	z.Precompute()
	return z
}

var (
	tlsKeyMu   sync.Mutex
	tlsKeyMemo = map[string]crypto.PrivateKey{}
)

// TLSKey returns the pool key in the concrete type zcrypto/tls wants
// (*zcrypto/rsa.PrivateKey, *ecdsa.PrivateKey, ed25519.PrivateKey).
func TLSKey(name string) crypto.PrivateKey {
	tlsKeyMu.Lock()
	defer tlsKeyMu.Unlock()
	if k, ok := tlsKeyMemo[name]; ok {
		return k
	}
	var out crypto.PrivateKey
	switch k := Key(name).(type) {
	case *rsa.PrivateKey:
		out = ZRSA(k)
	default:
		out = k
	}
	tlsKeyMemo[name] = out
	return out
}
