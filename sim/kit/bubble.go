package kit

import (
	"fmt"
	"runtime"
	"strings"
	"testing"
	"testing/synctest"
)

// Bubble runs f as the root goroutine of a testing/synctest bubble, so that
// time.Now/Sleep/Timer inside the code under test read the simulated clock.
//
// synctest.Test is called on a goroutine of its own: when the race detector
// fires inside the bubble the testing package marks the bubble's test as failed
// and synctest.Test then calls t.FailNow, i.e. runtime.Goexit, which must not
// take the worker loop down with it. The "blocked goroutines remain" panic raised
// at the end of a bubble is recovered and returned as leak != "" (classified by
// the caller).
// BubblePanic carries a panic of the bubble's root function (the code under test called directly from the harness) to
// the goroutine that started the bubble, together with the stack at the point of the panic.
type BubblePanic struct {
	Val   any
	Stack string
}

func (b *BubblePanic) Error() string { return fmt.Sprintf("panic inside the simulation bubble: %v", b.Val) }

func Bubble(t *testing.T, f func()) (leak string) {
	var inner *BubblePanic
	done := make(chan string, 1)
	go func() {
		res := ""
		defer func() {
			if r := recover(); r != nil {
				msg := fmt.Sprint(r)
				if strings.Contains(msg, "deadlock") || strings.Contains(msg, "blocked goroutines") {
					res = msg
				} else {
					res = "PANIC: " + msg
				}
			}
			done <- res
		}()
		synctest.Test(t, func(*testing.T) {
			defer func() {
				if r := recover(); r != nil {
					buf := make([]byte, 1<<16)
					inner = &BubblePanic{Val: r, Stack: string(buf[:runtime.Stack(buf, false)])}
				}
			}()
			f()
		})
	}()
	leak = <-done
	if inner != nil {
		panic(inner)
	}
	if strings.HasPrefix(leak, "PANIC: ") {
		panic(leak)
	}
	return leak
}
