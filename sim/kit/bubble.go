package kit

import (
	"fmt"
	"strings"
	"testing"
	"testing/synctest"
)

// Bubble runs f as the root goroutine of a testing/synctest bubble, so that
// time.Now/Sleep/Timer inside the code under test read the simulated clock.
//
// synctest.Test is called on a goroutine of its own: when the race detector
// fires inside the bubble the testing package marks the bubble's test as failed
// and synctest.Test then calls t.FailNow, i.e. runtime.Goexit, which must not
// take the worker loop down with it. The "blocked goroutines remain" panic raised
// at the end of a bubble is recovered and returned as leak != "" (classified by
// the caller).
func Bubble(t *testing.T, f func()) (leak string) {
	done := make(chan string, 1)
	go func() {
		res := ""
		defer func() {
			if r := recover(); r != nil {
				msg := fmt.Sprint(r)
				if strings.Contains(msg, "deadlock") || strings.Contains(msg, "blocked goroutines") {
					res = msg
				} else {
					res = "PANIC: " + msg
				}
			}
			done <- res
		}()
		synctest.Test(t, func(*testing.T) { f() })
	}()
	leak = <-done
	if strings.HasPrefix(leak, "PANIC: ") {
		panic(leak)
	}
	return leak
}
