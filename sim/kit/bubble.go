package kit

import (
	"fmt"
	"strings"
	"testing"
	"testing/synctest"
)

// Bubble runs f as the root goroutine of a testing/synctest bubble, so that
// time.Now/Sleep/Timer inside the code under test read the simulated clock.
// The "blocked goroutines remain" panic raised at the end of a bubble is
// recovered and returned as leak != "" (classified by the caller).
func Bubble(t *testing.T, f func()) (leak string) {
	defer func() {
		if r := recover(); r != nil {
			msg := fmt.Sprint(r)
			if strings.Contains(msg, "deadlock") || strings.Contains(msg, "blocked goroutines") {
				leak = msg
				return
			}
			panic(r)
		}
	}()
	synctest.Test(t, func(*testing.T) { f() })
	return ""
}
