package kit

import (
	"errors"
	"fmt"
	"io"
	"net"
	"os"
	"time"
)

// simnet: a pair of in-order byte streams driven by the lockstep scheduler.
// Benign nondeterminism (segmentation, latency, short reads, send window) is
// always available; adversarial faults are applied by a per-direction Filter
// that sees the byte stream as written and decides what is delivered.

type NetParams struct {
	MaxSeg     int           // maximum segment size on the wire (0 = unlimited)
	SegMode    int           // 0 whole writes, 1 random sizes ≤ MaxSeg, 2 single bytes for the first few hundred bytes then random
	LatencyMin time.Duration // per segment
	LatencyMax time.Duration
	ShortReads bool // Read returns a seeded prefix of what is available
	EOFWithData bool // the Read that drains the stream after the peer's FIN returns (n, io.EOF) instead of (n, nil)
	Window     int  // bytes that may be in flight + unread before Write blocks (0 = unlimited)
}

// Filter transforms the sender's byte stream. Write is called with every chunk
// the sender wrote (in order) and returns the bytes to deliver now; Closed is
// called when the sender closes and may flush bytes it withheld. A filter can
// ask for the stream to be cut (FIN or RST delivered to the receiver) by
// returning cut != CutNone.
type Filter interface {
	Write(p []byte) (out []byte, cut int)
	Closed() []byte
}

const (
	CutNone = 0
	CutFIN  = 1
	CutRST  = 2
)

type WireEvent struct {
	Off  int // offset in the stream as written by the sender
	Len  int
	Seq  uint64
	At   time.Duration
	Kind string // "w" sender write, "d" delivered to receiver buffer
}

type half struct { // one direction: from a → b
	buf       []byte // delivered, unread
	inflight  int
	fin       bool // no more data will arrive (after buf is drained → EOF)
	rst       bool
	finSent   bool
	lastArr   time.Duration
	filter    Filter
	cut       bool   // filter cut the stream: further writes are discarded silently
	Sent      []byte // complete stream as written by the sender
	Delivered []byte // complete stream as handed to the receiver's buffer
	Events    []WireEvent
	name      string
}

type Conn struct {
	WriteTimeouts int // Write calls that ended on the write deadline
	sim     *Sim
	name    string
	peer    *Conn
	out     *half // this → peer
	in      *half // peer → this
	p       NetParams
	rng     *Rng
	closed  bool
	rdl     time.Duration // read deadline, absolute sim time, 0 none
	wdl     time.Duration
	EPipe   bool // writes fail once the peer's FIN has arrived (net.Pipe semantics), reads still drain
	Reads   int
	Writes  int
	OnWrite func(c *Conn, p []byte) // observation hook, scheduler context of the writer
}

type timeoutError struct{}

func (timeoutError) Error() string   { return "simnet: i/o timeout" }
func (timeoutError) Timeout() bool   { return true }
func (timeoutError) Temporary() bool { return true }
func (timeoutError) Is(t error) bool { return t == os.ErrDeadlineExceeded }

var ErrTimeout net.Error = timeoutError{}
var ErrReset = errors.New("simnet: connection reset by peer")
var ErrAborted = errors.New("simnet: simulation aborted")

type addr string

func (a addr) Network() string { return "simnet" }
func (a addr) String() string  { return string(a) }

// Pipe creates a connected pair.
func (s *Sim) Pipe(aName, bName string, pa, pb NetParams) (*Conn, *Conn) {
	ab := &half{name: aName + ">" + bName}
	ba := &half{name: bName + ">" + aName}
	a := &Conn{sim: s, name: aName, out: ab, in: ba, p: pa, rng: s.Rng.Derive("net/" + aName)}
	b := &Conn{sim: s, name: bName, out: ba, in: ab, p: pb, rng: s.Rng.Derive("net/" + bName)}
	a.peer, b.peer = b, a
	return a, b
}

func (c *Conn) SetFilter(f Filter)      { c.out.filter = f }
func (c *Conn) SentStream() []byte      { return c.out.Sent }
func (c *Conn) DeliveredStream() []byte { return c.out.Delivered } // what the peer was given
func (c *Conn) WireEvents() []WireEvent { return c.out.Events }
func (c *Conn) LocalAddr() net.Addr     { return addr(c.name) }
func (c *Conn) RemoteAddr() net.Addr    { return addr(c.peer.name) }
func (c *Conn) PeerClosed() bool        { return c.in.fin || c.in.rst }
func (c *Conn) UnreadBytes() int        { return len(c.in.buf) }

func (c *Conn) toSim(t time.Time) time.Duration {
	if t.IsZero() {
		return 0
	}
	d := t.Sub(c.sim.epoch)
	if d <= 0 {
		d = 1 // already expired
	}
	return d
}

// wakeAt makes the clock stop at a newly set deadline: a call of another task that is parked with an older, later
// deadline re-reads the deadline in its predicate, but simulated time only advances to known instants. Without this
// a Read interrupted by SetReadDeadline(sooner) would return at the next unrelated event instead of at the deadline.
func (c *Conn) wakeAt(d time.Duration) {
	if d > c.sim.now {
		c.sim.After(d-c.sim.now, func() {})
	}
}

func (c *Conn) SetDeadline(t time.Time) error {
	c.sim.Yield(c.name + ".SetDeadline")
	c.rdl, c.wdl = c.toSim(t), c.toSim(t)
	c.wakeAt(c.rdl)
	return nil
}
func (c *Conn) SetReadDeadline(t time.Time) error {
	c.sim.Yield(c.name + ".SetReadDeadline")
	c.rdl = c.toSim(t)
	c.wakeAt(c.rdl)
	return nil
}
func (c *Conn) SetWriteDeadline(t time.Time) error {
	c.sim.Yield(c.name + ".SetWriteDeadline")
	c.wdl = c.toSim(t)
	c.wakeAt(c.wdl)
	return nil
}

func (c *Conn) Read(p []byte) (int, error) {
	s := c.sim
	c.Reads++
	if len(p) == 0 {
		s.Yield(c.name + ".Read0")
		return 0, nil
	}
	// the deadline is re-read inside the predicate: another task may change it while this one is parked
	s.Block(c.name+".Read", func() bool {
		return c.closed || len(c.in.buf) > 0 || c.in.fin || c.in.rst || (c.rdl != 0 && s.now >= c.rdl)
	}, c.rdl)
	for !s.aborting && !(c.closed || len(c.in.buf) > 0 || c.in.fin || c.in.rst || (c.rdl != 0 && s.now >= c.rdl)) {
		// woken by a stale deadline that has since been moved
		s.Block(c.name+".Read", func() bool {
			return c.closed || len(c.in.buf) > 0 || c.in.fin || c.in.rst || (c.rdl != 0 && s.now >= c.rdl)
		}, c.rdl)
	}
	if s.aborting {
		return 0, ErrAborted
	}
	switch {
	case c.closed:
		return 0, net.ErrClosed
	case c.rdl != 0 && s.now >= c.rdl:
		s.Count("net.read_deadline_expired")
		return 0, ErrTimeout
	case len(c.in.buf) > 0:
		n := len(c.in.buf)
		if n > len(p) {
			n = len(p)
		}
		if c.p.ShortReads && n > 1 && c.rng.Chance(1, 3) {
			n = 1 + c.rng.Intn(n)
			s.Count("net.short_read")
		}
		copy(p, c.in.buf[:n])
		c.in.buf = c.in.buf[n:]
		s.Logf("%s read %d", c.name, n)
		if c.p.EOFWithData && len(c.in.buf) == 0 && c.in.fin {
			// a transport may hand over the last bytes together with io.EOF (legal for an io.Reader)
			s.Count("net.eof_with_data")
			return n, io.EOF
		}
		return n, nil
	case c.in.rst:
		return 0, ErrReset
	default:
		return 0, io.EOF
	}
}

func (c *Conn) windowFree() int {
	if c.p.Window <= 0 {
		return 1 << 30
	}
	used := c.out.inflight + len(c.out.buf)
	if used >= c.p.Window {
		return 0
	}
	return c.p.Window - used
}

func (c *Conn) Write(p []byte) (int, error) {
	s := c.sim
	c.Writes++
	total := 0
	for {
		ready := func() bool {
			return c.closed || c.in.rst || c.windowFree() > 0 || c.peer.closed || (c.wdl != 0 && s.now >= c.wdl) || (c.EPipe && c.in.fin)
		}
		s.Block(c.name+".Write", ready, c.wdl)
		for !s.aborting && !ready() {
			s.Block(c.name+".Write", ready, c.wdl)
		}
		if s.aborting {
			return total, ErrAborted
		}
		if c.closed {
			return total, net.ErrClosed
		}
		if c.in.rst {
			return total, ErrReset
		}
		if c.wdl != 0 && s.now >= c.wdl {
			s.Count("net.write_deadline_expired")
			c.WriteTimeouts++
			return total, ErrTimeout
		}
		if c.EPipe && c.in.fin {
			// in-memory transports (net.Pipe) and stacks that already saw the peer go away fail the write at once
			s.Count("net.write_after_peer_close_failed")
			return total, ErrReset
		}
		if c.peer.closed && c.p.Window > 0 && c.windowFree() == 0 {
			// peer is gone and will never drain: behave like a broken pipe
			return total, ErrReset
		}
		n := len(p) - total
		if f := c.windowFree(); n > f {
			n = f
			s.Count("net.write_blocked_on_window")
		}
		c.send(p[total : total+n])
		total += n
		if total == len(p) {
			return total, nil
		}
	}
}

// send pushes bytes written by the local side through the filter and onto the wire.
func (c *Conn) send(p []byte) {
	s := c.sim
	h := c.out
	if c.OnWrite != nil {
		c.OnWrite(c, p)
	}
	h.Events = append(h.Events, WireEvent{Off: len(h.Sent), Len: len(p), Seq: s.Seq(), At: s.now, Kind: "w"})
	h.Sent = append(h.Sent, p...)
	s.Logf("%s write %d", c.name, len(p))
	if h.cut {
		return
	}
	out := p
	cut := CutNone
	if h.filter != nil {
		out, cut = h.filter.Write(p)
	}
	c.transmit(out)
	if cut != CutNone {
		h.cut = true
		c.deliverClose(cut == CutRST)
	}
}

func (c *Conn) transmit(out []byte) {
	s := c.sim
	h := c.out
	for len(out) > 0 {
		n := len(out)
		switch c.p.SegMode {
		case 1:
			if c.p.MaxSeg > 0 && n > c.p.MaxSeg {
				n = c.p.MaxSeg
			}
			n = 1 + c.rng.Intn(n)
		case 2:
			if len(h.Delivered)+h.inflight < 600 {
				n = 1
			} else {
				if c.p.MaxSeg > 0 && n > c.p.MaxSeg {
					n = c.p.MaxSeg
				}
				n = 1 + c.rng.Intn(n)
			}
		default:
			if c.p.MaxSeg > 0 && n > c.p.MaxSeg {
				n = c.p.MaxSeg
			}
		}
		seg := append([]byte(nil), out[:n]...)
		out = out[n:]
		lat := c.p.LatencyMin
		if c.p.LatencyMax > c.p.LatencyMin {
			lat += time.Duration(c.rng.Uint64() % uint64(c.p.LatencyMax-c.p.LatencyMin+1))
		}
		arr := s.now + lat
		if arr < h.lastArr {
			arr = h.lastArr
		}
		h.lastArr = arr
		h.inflight += len(seg)
		s.Count("net.segments")
		s.After(arr-s.now, func() {
			h.inflight -= len(seg)
			if h.fin || h.rst {
				return
			}
			h.Events = append(h.Events, WireEvent{Off: len(h.Delivered), Len: len(seg), Seq: s.Seq(), At: s.now, Kind: "d"})
			h.buf = append(h.buf, seg...)
			h.Delivered = append(h.Delivered, seg...)
		})
	}
}

func (c *Conn) deliverClose(rst bool) {
	s := c.sim
	h := c.out
	if h.finSent {
		return
	}
	h.finSent = true
	lat := c.p.LatencyMin
	arr := s.now + lat
	if arr < h.lastArr {
		arr = h.lastArr
	}
	h.lastArr = arr
	s.After(arr-s.now, func() {
		if rst {
			h.rst = true
			h.buf = nil
		} else {
			h.fin = true
		}
	})
}

// Close closes the local end: pending and future local calls fail, the peer
// sees EOF after the data already in flight.
func (c *Conn) Close() error {
	s := c.sim
	s.Yield(c.name + ".Close")
	if c.closed {
		return net.ErrClosed
	}
	c.closed = true
	s.Logf("%s close", c.name)
	if !c.out.cut {
		if c.out.filter != nil {
			if rest := c.out.filter.Closed(); len(rest) > 0 {
				c.transmit(rest)
			}
		}
		c.deliverClose(false)
	}
	return nil
}

// Kill closes the connection from scheduler or harness context without a
// scheduling point (used by fault events).
func (c *Conn) Kill(rst bool) {
	if c.closed {
		return
	}
	c.closed = true
	c.sim.Logf("%s kill rst=%v", c.name, rst)
	if !c.out.cut {
		c.deliverClose(rst)
	}
}

// Inject places raw bytes into the stream towards the peer as if this side
// had written them, bypassing the filter (harness use, any context).
func (c *Conn) Inject(p []byte) {
	c.transmit(append([]byte(nil), p...))
}

func (c *Conn) String() string { return fmt.Sprintf("simnet(%s)", c.name) }
