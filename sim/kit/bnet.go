package kit

import (
	"io"
	"net"
	"sync"
	"time"
)

// bnet: the engine-B transport. A buffered in-memory duplex pipe whose blocking
// operations park on sync.Cond (durably blocking inside a testing/synctest
// bubble) and whose deadlines use bubble timers, so it needs no scheduler and
// works with free-running goroutines under the race detector.

type bhalf struct {
	mu      sync.Mutex
	cond    *sync.Cond
	buf     []byte
	wclosed bool // writer side closed: reader sees EOF after draining
	rclosed bool // reader side closed: writes fail
	window  int
}

type BConn struct {
	name    string
	in, out *bhalf
	mu      sync.Mutex
	rdl     time.Time
	wdl     time.Time
	closed  bool
	Sent    int
	Latency time.Duration // simulated time every Write takes (set before use)
}

func BPipe(window int) (*BConn, *BConn) {
	ab, ba := &bhalf{window: window}, &bhalf{window: window}
	ab.cond, ba.cond = sync.NewCond(&ab.mu), sync.NewCond(&ba.mu)
	a := &BConn{name: "a", in: ba, out: ab}
	b := &BConn{name: "b", in: ab, out: ba}
	return a, b
}

func (c *BConn) deadline(read bool) time.Time {
	c.mu.Lock()
	defer c.mu.Unlock()
	if read {
		return c.rdl
	}
	return c.wdl
}

func (c *BConn) isClosed() bool {
	c.mu.Lock()
	defer c.mu.Unlock()
	return c.closed
}

func expired(t time.Time) bool { return !t.IsZero() && !time.Now().Before(t) }

func (c *BConn) Read(p []byte) (int, error) {
	h := c.in
	h.mu.Lock()
	defer h.mu.Unlock()
	for {
		if c.isClosed() {
			return 0, net.ErrClosed
		}
		if len(h.buf) > 0 {
			n := copy(p, h.buf)
			h.buf = h.buf[n:]
			h.cond.Broadcast()
			return n, nil
		}
		if h.wclosed {
			return 0, io.EOF
		}
		if expired(c.deadline(true)) {
			return 0, ErrTimeout
		}
		h.cond.Wait()
	}
}

func (c *BConn) Write(p []byte) (int, error) {
	h := c.out
	if c.Latency > 0 {
		// pacing: the write takes simulated time, so that a handshake spans simulated time and
		// other tasks' timers fire in the middle of it
		time.Sleep(c.Latency)
	}
	h.mu.Lock()
	defer h.mu.Unlock()
	total := 0
	for len(p) > 0 {
		if c.isClosed() {
			return total, net.ErrClosed
		}
		if h.rclosed {
			return total, ErrReset
		}
		if expired(c.deadline(false)) {
			return total, ErrTimeout
		}
		n := len(p)
		if h.window > 0 {
			free := h.window - len(h.buf)
			if free <= 0 {
				h.cond.Wait()
				continue
			}
			if n > free {
				n = free
			}
		}
		h.buf = append(h.buf, p[:n]...)
		p = p[n:]
		total += n
		h.cond.Broadcast()
	}
	c.Sent += total
	return total, nil
}

func (c *BConn) Close() error {
	c.mu.Lock()
	if c.closed {
		c.mu.Unlock()
		return net.ErrClosed
	}
	c.closed = true
	c.mu.Unlock()
	c.out.mu.Lock()
	c.out.wclosed = true
	c.out.cond.Broadcast()
	c.out.mu.Unlock()
	c.in.mu.Lock()
	c.in.rclosed = true
	c.in.cond.Broadcast()
	c.in.mu.Unlock()
	return nil
}

func (c *BConn) wakeAt(t time.Time, h *bhalf) {
	if t.IsZero() {
		return
	}
	d := time.Until(t)
	if d < 0 {
		d = 0
	}
	time.AfterFunc(d, func() {
		h.mu.Lock()
		h.cond.Broadcast()
		h.mu.Unlock()
	})
}

func (c *BConn) SetDeadline(t time.Time) error {
	c.mu.Lock()
	c.rdl, c.wdl = t, t
	c.mu.Unlock()
	c.wakeAt(t, c.in)
	c.wakeAt(t, c.out)
	return nil
}

func (c *BConn) SetReadDeadline(t time.Time) error {
	c.mu.Lock()
	c.rdl = t
	c.mu.Unlock()
	c.wakeAt(t, c.in)
	return nil
}

func (c *BConn) SetWriteDeadline(t time.Time) error {
	c.mu.Lock()
	c.wdl = t
	c.mu.Unlock()
	c.wakeAt(t, c.out)
	return nil
}

func (c *BConn) LocalAddr() net.Addr  { return addr("bnet-" + c.name) }
func (c *BConn) RemoteAddr() net.Addr { return addr("bnet-peer-of-" + c.name) }
