// Package vatomic replaces "sync/atomic" in package tls under the C34 overlay:
// in lockstep mode every atomic operation is preceded by a scheduling point.
package vatomic

import (
	"sync/atomic"

	"verifsim/vsync"
)

type (
	Bool   = atomic.Bool
	Int32  = atomic.Int32
	Int64  = atomic.Int64
	Uint32 = atomic.Uint32
	Uint64 = atomic.Uint64
	Value  = atomic.Value
)

type Pointer[T any] = atomic.Pointer[T]

func yield(p string) {
	if vsync.Mode == vsync.ModeLockstep {
		vsync.Sched.Yield(p)
	}
}

func LoadInt32(a *int32) int32     { yield("atomic.LoadInt32"); return atomic.LoadInt32(a) }
func LoadInt64(a *int64) int64     { yield("atomic.LoadInt64"); return atomic.LoadInt64(a) }
func LoadUint32(a *uint32) uint32  { yield("atomic.LoadUint32"); return atomic.LoadUint32(a) }
func LoadUint64(a *uint64) uint64  { yield("atomic.LoadUint64"); return atomic.LoadUint64(a) }
func StoreInt32(a *int32, v int32) { yield("atomic.StoreInt32"); atomic.StoreInt32(a, v) }
func StoreInt64(a *int64, v int64) { yield("atomic.StoreInt64"); atomic.StoreInt64(a, v) }
func StoreUint32(a *uint32, v uint32) {
	yield("atomic.StoreUint32")
	atomic.StoreUint32(a, v)
}
func StoreUint64(a *uint64, v uint64) {
	yield("atomic.StoreUint64")
	atomic.StoreUint64(a, v)
}
func AddInt32(a *int32, d int32) int32    { yield("atomic.AddInt32"); return atomic.AddInt32(a, d) }
func AddInt64(a *int64, d int64) int64    { yield("atomic.AddInt64"); return atomic.AddInt64(a, d) }
func AddUint32(a *uint32, d uint32) uint32 { yield("atomic.AddUint32"); return atomic.AddUint32(a, d) }
func AddUint64(a *uint64, d uint64) uint64 { yield("atomic.AddUint64"); return atomic.AddUint64(a, d) }
func CompareAndSwapInt32(a *int32, o, n int32) bool {
	yield("atomic.CompareAndSwapInt32")
	return atomic.CompareAndSwapInt32(a, o, n)
}
func CompareAndSwapInt64(a *int64, o, n int64) bool {
	yield("atomic.CompareAndSwapInt64")
	return atomic.CompareAndSwapInt64(a, o, n)
}
func CompareAndSwapUint32(a *uint32, o, n uint32) bool {
	yield("atomic.CompareAndSwapUint32")
	return atomic.CompareAndSwapUint32(a, o, n)
}
func CompareAndSwapUint64(a *uint64, o, n uint64) bool {
	yield("atomic.CompareAndSwapUint64")
	return atomic.CompareAndSwapUint64(a, o, n)
}
func SwapInt32(a *int32, n int32) int32    { yield("atomic.SwapInt32"); return atomic.SwapInt32(a, n) }
func SwapUint32(a *uint32, n uint32) uint32 { yield("atomic.SwapUint32"); return atomic.SwapUint32(a, n) }
