// Package vsync is the simulator-aware replacement for "sync" that the check
// for C34 substitutes into package tls through a build overlay generated at
// check time (no file in /repo is modified). With no scheduler installed every
// primitive is the real one.
package vsync

import "sync"

// Re-exported unchanged.
type (
	Once      = sync.Once
	Pool      = sync.Pool
	WaitGroup = sync.WaitGroup
	Locker    = sync.Locker
	Cond      = sync.Cond
	Map       = sync.Map
)

func NewCond(l Locker) *Cond { return sync.NewCond(l) }

const (
	ModeReal     = 0 // real sync primitives
	ModeLockstep = 1 // engine A: a lock operation is a scheduling point with an "is free" predicate
	ModeChan     = 2 // engine B: channel-based locks (durably blocking inside a synctest bubble)
)

// Scheduler is what engine A provides.
type Scheduler interface {
	Block(point string, enabled func() bool)
	Yield(point string)
}

var (
	Mode  int
	Sched Scheduler
	// Stats, written only in lockstep mode (single running task).
	LockOps      int
	ContendedOps int
)

type Mutex struct {
	real sync.Mutex
	held bool
	once sync.Once
	ch   chan struct{}
}

func (m *Mutex) channel() chan struct{} {
	m.once.Do(func() { m.ch = make(chan struct{}, 1) })
	return m.ch
}

func (m *Mutex) Lock() {
	switch Mode {
	case ModeLockstep:
		LockOps++
		if m.held {
			ContendedOps++
		}
		Sched.Block("Mutex.Lock", func() bool { return !m.held })
		m.held = true
	case ModeChan:
		m.channel() <- struct{}{}
	default:
		m.real.Lock()
	}
}

func (m *Mutex) TryLock() bool {
	switch Mode {
	case ModeLockstep:
		Sched.Yield("Mutex.TryLock")
		if m.held {
			return false
		}
		m.held = true
		return true
	case ModeChan:
		select {
		case m.channel() <- struct{}{}:
			return true
		default:
			return false
		}
	default:
		return m.real.TryLock()
	}
}

func (m *Mutex) Unlock() {
	switch Mode {
	case ModeLockstep:
		m.held = false
		Sched.Yield("Mutex.Unlock")
	case ModeChan:
		select {
		case <-m.channel():
		default:
			panic("vsync: unlock of unlocked mutex")
		}
	default:
		m.real.Unlock()
	}
}

type RWMutex struct {
	real    sync.RWMutex
	writer  bool
	readers int
	w       Mutex // chan mode: readers and writers exclude each other (a legal, stricter RWMutex)
}

func (m *RWMutex) Lock() {
	switch Mode {
	case ModeLockstep:
		LockOps++
		Sched.Block("RWMutex.Lock", func() bool { return !m.writer && m.readers == 0 })
		m.writer = true
	case ModeChan:
		m.w.Lock()
	default:
		m.real.Lock()
	}
}

func (m *RWMutex) Unlock() {
	switch Mode {
	case ModeLockstep:
		m.writer = false
		Sched.Yield("RWMutex.Unlock")
	case ModeChan:
		m.w.Unlock()
	default:
		m.real.Unlock()
	}
}

func (m *RWMutex) RLock() {
	switch Mode {
	case ModeLockstep:
		LockOps++
		Sched.Block("RWMutex.RLock", func() bool { return !m.writer })
		m.readers++
	case ModeChan:
		m.w.Lock()
	default:
		m.real.RLock()
	}
}

func (m *RWMutex) RUnlock() {
	switch Mode {
	case ModeLockstep:
		m.readers--
		Sched.Yield("RWMutex.RUnlock")
	case ModeChan:
		m.w.Unlock()
	default:
		m.real.RUnlock()
	}
}

func (m *RWMutex) RLocker() Locker { return rlocker{m} }

type rlocker struct{ m *RWMutex }

func (r rlocker) Lock()   { r.m.RLock() }
func (r rlocker) Unlock() { r.m.RUnlock() }
