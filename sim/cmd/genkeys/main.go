// genkeys writes the fixed key pool used by every simulation (run once; the
// output is committed so that all processes share identical keys).
package main

import (
	"crypto/ecdsa"
	"crypto/ed25519"
	"crypto/elliptic"
	"crypto/rand"
	"crypto/rsa"
	"crypto/x509"
	"encoding/pem"
	"fmt"
	"os"
)

func main() {
	out, err := os.Create(os.Args[1])
	if err != nil {
		panic(err)
	}
	defer out.Close()
	emit := func(name string, key any) {
		der, err := x509.MarshalPKCS8PrivateKey(key)
		if err != nil {
			panic(err)
		}
		pem.Encode(out, &pem.Block{Type: "PRIVATE KEY", Headers: map[string]string{"Name": name}, Bytes: der})
	}
	for i := 0; i < 6; i++ {
		k, _ := rsa.GenerateKey(rand.Reader, 2048)
		emit(fmt.Sprintf("rsa%d", i), k)
	}
	for i := 0; i < 16; i++ {
		k, _ := ecdsa.GenerateKey(elliptic.P256(), rand.Reader)
		emit(fmt.Sprintf("p256_%d", i), k)
	}
	for i := 0; i < 3; i++ {
		k, _ := ecdsa.GenerateKey(elliptic.P384(), rand.Reader)
		emit(fmt.Sprintf("p384_%d", i), k)
	}
	for i := 0; i < 4; i++ {
		_, k, _ := ed25519.GenerateKey(rand.Reader)
		emit(fmt.Sprintf("ed%d", i), k)
	}
}
