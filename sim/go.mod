module verifsim

go 1.25.0

require (
	github.com/anishathalye/porcupine v1.3.0
	github.com/sirupsen/logrus v1.9.4
	github.com/zmap/zcrypto v0.0.0
)

require (
	github.com/mreiferson/go-httpclient v0.0.0-20201222173833-5e475fde3a4d // indirect
	github.com/weppos/publicsuffix-go v0.50.4-0.20260715080728-6ed62ce99a4a // indirect
	golang.org/x/crypto v0.54.0 // indirect
	golang.org/x/net v0.57.0 // indirect
	golang.org/x/sys v0.47.0 // indirect
	golang.org/x/text v0.40.0 // indirect
)

replace github.com/zmap/zcrypto => /repo
