module verifsim

go 1.25.0

require (
	github.com/zmap/zcrypto v0.0.0
	github.com/anishathalye/porcupine v1.3.0
	github.com/davecgh/go-spew v1.1.1
	github.com/kr/pretty v0.3.1
	github.com/kr/text v0.2.0
	github.com/mreiferson/go-httpclient v0.0.0-20201222173833-5e475fde3a4d
	github.com/op/go-logging v0.0.0-20160315200505-970db520ece7
	github.com/pmezard/go-difflib v1.0.0
	github.com/rogpeppe/go-internal v1.9.0
	github.com/sirupsen/logrus v1.9.4
	github.com/stretchr/testify v1.11.1
	github.com/weppos/publicsuffix-go v0.50.4-0.20260715080728-6ed62ce99a4a
	github.com/zmap/zcertificate v0.0.1
	golang.org/x/crypto v0.54.0
	golang.org/x/net v0.57.0
	golang.org/x/sys v0.47.0
	golang.org/x/text v0.40.0
	gopkg.in/check.v1 v1.0.0-20201130134442-10cb98267c6c
	gopkg.in/yaml.v3 v3.0.1
)

replace github.com/zmap/zcrypto => /repo
