package props

import (
	"strings"
	"verifsim/kit"
)

// recFilter is the record-aware wire-fault injector used by C25/C32: once
// armed (by the sending task, right after its handshake returned) it
// reassembles the sender's TLS records and applies the planned faults to the
// records it counts from that moment on.

type wireFault struct {
	Dir  int    `json:"dir"`  // 0 = client→server, 1 = server→client
	Rec  int    `json:"rec"`  // index among records sent after the handshake in that direction
	Kind string `json:"kind"` // flip | drop | dup | swap | replay | trunc | insert
	Off  int    `json:"off"`  // flip/trunc: position selector inside the record (region-relative)
	Reg  string `json:"reg"`  // flip: hdr_type | hdr_vers | hdr_len | head | body | tail
	Bit  int    `json:"bit"`
	Ref  int    `json:"ref"`  // replay: index of the earlier record to send again
	RST  bool   `json:"rst"`  // trunc: reset instead of FIN
}

type recFilter struct {
	Armed   bool
	Plan    []wireFault
	buf     []byte
	idx     int
	seen    [][]byte // raw records passed, by index (for replay)
	held    []byte   // record held back by a swap
	heldSet bool
	Fired   []firedFault
	count   func(string)
}

type firedFault struct {
	Kind string
	Rec  int // index of the first record position that differs from what was sent
	IncludesOriginal bool // true when record Rec itself is delivered intact before the disturbance (dup/replay)
}

func (f *recFilter) faultAt(i int) *wireFault {
	for k := range f.Plan {
		if f.Plan[k].Rec == i {
			return &f.Plan[k]
		}
	}
	return nil
}

func (f *recFilter) Write(p []byte) ([]byte, int) {
	if !f.Armed {
		return p, kit.CutNone
	}
	f.buf = append(f.buf, p...)
	var out []byte
	for {
		if len(f.buf) < 5 {
			break
		}
		n := int(f.buf[3])<<8 | int(f.buf[4])
		if len(f.buf) < 5+n {
			break
		}
		rec := append([]byte(nil), f.buf[:5+n]...)
		f.buf = f.buf[5+n:]
		i := f.idx
		f.idx++
		f.seen = append(f.seen, rec)
		if f.heldSet {
			// second half of a swap: deliver this record first, then the held one
			out = append(out, rec...)
			out = append(out, f.held...)
			f.heldSet = false
			f.Fired = append(f.Fired, firedFault{Kind: "swap", Rec: i - 1})
			continue
		}
		wf := f.faultAt(i)
		if wf == nil {
			out = append(out, rec...)
			continue
		}
		switch wf.Kind {
		case "flip":
			m := append([]byte(nil), rec...)
			pos := flipPos(wf, len(m))
			m[pos] ^= 1 << uint(wf.Bit&7)
			out = append(out, m...)
			f.Fired = append(f.Fired, firedFault{Kind: "flip." + wf.Reg, Rec: i})
		case "drop":
			f.Fired = append(f.Fired, firedFault{Kind: "drop", Rec: i})
		case "dup":
			out = append(out, rec...)
			out = append(out, rec...)
			f.Fired = append(f.Fired, firedFault{Kind: "dup", Rec: i, IncludesOriginal: true})
		case "swap":
			f.held = rec
			f.heldSet = true
		case "replay":
			out = append(out, rec...)
			j := 0
			if i > 0 {
				j = wf.Ref % i
			}
			if i == 0 {
				j = 0
			}
			out = append(out, f.seen[j]...)
			f.Fired = append(f.Fired, firedFault{Kind: "replay", Rec: i, IncludesOriginal: true})
		case "insert":
			g := []byte{rec[0], rec[1], rec[2], 0, 0}
			// a well-framed record of the same type and version with an arbitrary body: short bodies (below the
			// explicit nonce, tag or MAC length of the suite) as well as plausible ones
			bl := 24 + wf.Off%64
			if wf.Bit < 5 {
				bl = []int{0, 1, 2, 3, 4, 5, 7, 8, 9, 12, 15, 16, 17, 20, 23}[wf.Off%15]
			}
			body := make([]byte, bl)
			r := kit.NewRng(uint64(wf.Ref)*977 + uint64(i))
			r.Fill(body)
			g[3], g[4] = byte(len(body)>>8), byte(len(body))
			out = append(out, g...)
			out = append(out, body...)
			out = append(out, rec...)
			f.Fired = append(f.Fired, firedFault{Kind: "insert", Rec: i})
		case "trunc":
			k := 1 + wf.Off%(len(rec)-1) // 1 .. len-1: the stream always ends strictly inside the record
			if strings.HasPrefix(wf.Reg, "hdr") {
				k = 1 + wf.Off%4 // inside the 5-byte record header
			}
			out = append(out, rec[:k]...)
			kind := "trunc"
			if k < 5 {
				kind = "trunc.hdr"
			}
			f.Fired = append(f.Fired, firedFault{Kind: kind, Rec: i})
			cut := kit.CutFIN
			if wf.RST {
				cut = kit.CutRST
			}
			return out, cut
		default:
			out = append(out, rec...)
		}
	}
	return out, kit.CutNone
}

func (f *recFilter) Closed() []byte {
	var out []byte
	if f.heldSet {
		out = append(out, f.held...)
		f.heldSet = false
	}
	out = append(out, f.buf...)
	f.buf = nil
	return out
}

// flipPos selects the byte to corrupt inside a record of length n (header
// included) according to the fault's region.
func flipPos(wf *wireFault, n int) int {
	body := n - 5
	switch wf.Reg {
	case "hdr_type":
		return 0
	case "hdr_vers":
		return 1 + wf.Off%2
	case "hdr_len":
		return 3 + wf.Off%2
	case "head": // explicit nonce / IV / first block
		if body <= 0 {
			return 0
		}
		return 5 + wf.Off%min(body, 16)
	case "pad_far": // far from the end: inside long CBC padding when the peer pads generously, otherwise somewhere in the body
		if body <= 0 {
			return 0
		}
		d := 40 + wf.Off%200
		if d >= body {
			d = wf.Off % body
		}
		return n - 1 - d
	case "tail": // tag / MAC / padding
		if body <= 0 {
			return 0
		}
		return n - 1 - wf.Off%min(body, 32)
	default:
		if body <= 0 {
			return 0
		}
		return 5 + wf.Off%body
	}
}

// firstDisturbed returns the earliest fired fault (nil when none fired).
func (f *recFilter) firstDisturbed() *firedFault {
	var best *firedFault
	for i := range f.Fired {
		ff := &f.Fired[i]
		if best == nil || ff.Rec < best.Rec {
			best = ff
		}
	}
	return best
}
