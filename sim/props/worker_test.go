package props

import "testing"

func TestWorker(t *testing.T)   { runWorker(t) }
func TestDescribe(t *testing.T) { runDescribe(t) }
