package props

import (
	"bytes"
	"crypto/aes"
	"crypto/cipher"
	"crypto/des"
	"crypto/hmac"
	"crypto/rc4"
	"crypto/sha1"
	"crypto/sha256"
	"crypto/sha512"
	"hash"

	"golang.org/x/crypto/chacha20poly1305"
	"verifsim/kit"
)

// Reference TLS 1.0-1.2 record protection, written from RFC 2246 / 4346 / 5246 section 6.2.3 and 6.3, RFC 5288
// (AES-GCM) and RFC 7905 (ChaCha20-Poly1305) with the standard library. One rec12 value is the state of one
// direction (MAC key, cipher key, IV / stream state, sequence number). It lets the harness act as a peer that
// frames its records in ways the RFCs allow but zcrypto's sender never uses: CBC padding of any legal length,
// zero-length application_data fragments, content split over several records.

type rec12 struct {
	vers   uint16
	class  int
	macLen int
	h      func() hash.Hash
	macKey []byte
	block  cipher.Block // CBC suites
	iv     []byte       // TLS 1.0 CBC: chained IV; AEAD: implicit part of the nonce
	stream *rc4.Cipher
	aead   cipher.AEAD
	seq    uint64
}

func keyLenOfSuite(id uint16) int {
	switch id {
	case 0x0035, 0x003d, 0x009d, 0x0039, 0x006b, 0x009f, 0xc00a, 0xc014, 0xc02c, 0xc030:
		return 32 // AES-256
	case 0x000a, 0x0016, 0xc008, 0xc012:
		return 24 // 3DES
	case 0xcca8, 0xcca9, 0xccaa:
		return 32
	}
	return 16
}

// newRec12Pair derives both directions' states from the master secret and the two randoms (RFC 5246 6.3).
func newRec12Pair(vers, suite uint16, master, clientRandom, serverRandom []byte) (client, server *rec12) {
	si := suiteByID[suite]
	keyLen := keyLenOfSuite(suite)
	macLen, ivLen := si.MacLen, 0
	switch si.Class {
	case cc3DES, ccAESCBC:
		ivLen = si.Block
	case ccAESGCM:
		macLen, ivLen = 0, 4
	case ccChaCha:
		macLen, ivLen = 0, 12
	}
	n := 2*macLen + 2*keyLen + 2*ivLen
	kb := refPRF(vers, suiteUsesSHA384(suite), master, "key expansion", append(append([]byte(nil), serverRandom...), clientRandom...), n)
	take := func(k int) []byte { b := kb[:k]; kb = kb[k:]; return b }
	cm, sm := take(macLen), take(macLen)
	ck, sk := take(keyLen), take(keyLen)
	civ, siv := take(ivLen), take(ivLen)
	mk := func(mac, key, iv []byte) *rec12 {
		r := &rec12{vers: vers, class: si.Class, macLen: macLen, macKey: mac, iv: append([]byte(nil), iv...)}
		switch macLen {
		case 20:
			r.h = sha1.New
		case 32:
			r.h = sha256.New
		case 48:
			r.h = sha512.New384
		}
		switch si.Class {
		case ccRC4:
			r.stream, _ = rc4.NewCipher(key)
		case cc3DES:
			r.block, _ = des.NewTripleDESCipher(key)
		case ccAESCBC:
			r.block, _ = aes.NewCipher(key)
		case ccAESGCM:
			b, _ := aes.NewCipher(key)
			r.aead, _ = cipher.NewGCM(b)
		case ccChaCha:
			r.aead, _ = chacha20poly1305.New(key)
		}
		return r
	}
	return mk(cm, ck, civ), mk(sm, sk, siv)
}

func (r *rec12) seqBytes() []byte {
	var b [8]byte
	for i := 0; i < 8; i++ {
		b[i] = byte(r.seq >> uint(56-8*i))
	}
	return b[:]
}

func (r *rec12) mac(typ byte, frag []byte) []byte {
	m := hmac.New(r.h, r.macKey)
	m.Write(r.seqBytes())
	m.Write([]byte{typ, byte(r.vers >> 8), byte(r.vers), byte(len(frag) >> 8), byte(len(frag))})
	m.Write(frag)
	return m.Sum(nil)
}

// open removes the protection of one record (header included); ok = false on any authentication failure.
func (r *rec12) open(rec []byte) (frag []byte, ok bool) {
	typ, body := rec[0], append([]byte(nil), rec[5:]...)
	switch r.class {
	case ccRC4:
		r.stream.XORKeyStream(body, body)
		if len(body) < r.macLen {
			return nil, false
		}
		frag = body[:len(body)-r.macLen]
		if !hmac.Equal(r.mac(typ, frag), body[len(frag):]) {
			return nil, false
		}
	case cc3DES, ccAESCBC:
		bs := r.block.BlockSize()
		iv := r.iv
		if r.vers >= vTLS11 {
			if len(body) < bs {
				return nil, false
			}
			iv, body = body[:bs], body[bs:]
		}
		if len(body) == 0 || len(body)%bs != 0 {
			return nil, false
		}
		if r.vers < vTLS11 {
			r.iv = append([]byte(nil), body[len(body)-bs:]...)
		}
		cipher.NewCBCDecrypter(r.block, iv).CryptBlocks(body, body)
		pad := int(body[len(body)-1])
		if len(body) < pad+1+r.macLen {
			return nil, false
		}
		for _, p := range body[len(body)-pad-1:] {
			if int(p) != pad {
				return nil, false
			}
		}
		body = body[:len(body)-pad-1]
		frag = body[:len(body)-r.macLen]
		if !hmac.Equal(r.mac(typ, frag), body[len(frag):]) {
			return nil, false
		}
	case ccAESGCM:
		if len(body) < 8+16 {
			return nil, false
		}
		nonce := append(append([]byte(nil), r.iv...), body[:8]...)
		n := len(body) - 8 - 16
		aad := append(r.seqBytes(), typ, byte(r.vers>>8), byte(r.vers), byte(n>>8), byte(n))
		var err error
		frag, err = r.aead.Open(nil, nonce, body[8:], aad)
		if err != nil {
			return nil, false
		}
	case ccChaCha:
		if len(body) < 16 {
			return nil, false
		}
		nonce := append([]byte(nil), r.iv...)
		for i, b := range r.seqBytes() {
			nonce[4+i] ^= b
		}
		n := len(body) - 16
		aad := append(r.seqBytes(), typ, byte(r.vers>>8), byte(r.vers), byte(n>>8), byte(n))
		var err error
		frag, err = r.aead.Open(nil, nonce, body, aad)
		if err != nil {
			return nil, false
		}
	}
	r.seq++
	return frag, true
}

// seal protects one fragment. extraPadBlocks adds that many whole blocks of CBC padding (as far as 255 allows);
// ivSrc supplies the explicit IV of TLS 1.1/1.2 CBC records.
func (r *rec12) seal(typ byte, frag []byte, extraPadBlocks int, ivSrc *kit.Rng) []byte {
	var body []byte
	switch r.class {
	case ccRC4:
		body = append(append([]byte(nil), frag...), r.mac(typ, frag)...)
		r.stream.XORKeyStream(body, body)
	case cc3DES, ccAESCBC:
		bs := r.block.BlockSize()
		pt := append(append([]byte(nil), frag...), r.mac(typ, frag)...)
		pad := bs - 1 - len(pt)%bs // padding_length: the total becomes a multiple of the block size
		for k := 0; k < extraPadBlocks && pad+bs <= 255; k++ {
			pad += bs
		}
		pt = append(pt, bytes.Repeat([]byte{byte(pad)}, pad+1)...)
		iv := r.iv
		if r.vers >= vTLS11 {
			iv = ivSrc.Bytes(bs)
			body = append(body, iv...)
		}
		ct := make([]byte, len(pt))
		cipher.NewCBCEncrypter(r.block, iv).CryptBlocks(ct, pt)
		if r.vers < vTLS11 {
			r.iv = append([]byte(nil), ct[len(ct)-bs:]...)
		}
		body = append(body, ct...)
	case ccAESGCM:
		explicit := r.seqBytes()
		nonce := append(append([]byte(nil), r.iv...), explicit...)
		aad := append(r.seqBytes(), typ, byte(r.vers>>8), byte(r.vers), byte(len(frag)>>8), byte(len(frag)))
		body = append(append([]byte(nil), explicit...), r.aead.Seal(nil, nonce, frag, aad)...)
	case ccChaCha:
		nonce := append([]byte(nil), r.iv...)
		for i, b := range r.seqBytes() {
			nonce[4+i] ^= b
		}
		aad := append(r.seqBytes(), typ, byte(r.vers>>8), byte(r.vers), byte(len(frag)>>8), byte(len(frag)))
		body = r.aead.Seal(nil, nonce, frag, aad)
	}
	r.seq++
	return append([]byte{typ, byte(r.vers >> 8), byte(r.vers), byte(len(body) >> 8), byte(len(body))}, body...)
}

// reframe12 sits on one direction of a TLS 1.0-1.2 connection. From the ChangeCipherSpec on it opens every
// record of the sender with the keys derived from the key log's master secret and re-emits the same content under
// the same keys with its own sequence numbers, in a different but legal framing.
type reframe12 struct {
	Vers, Suite uint16
	IsClient    bool // this direction carries the client's records
	KeyLog      *bytes.Buffer
	Hello       func() (clientRandom, serverRandom []byte) // both randoms, once the hellos have been seen on the wire
	Rng         *kit.Rng
	Rate        int

	in, out *rec12
	buf     []byte
	active  bool
	Lost    bool
	Fired   map[string]int
	empties int
}

func (f *reframe12) fire(k string) {
	if f.Fired == nil {
		f.Fired = map[string]int{}
	}
	f.Fired[k]++
}

func (f *reframe12) Closed() []byte { b := f.buf; f.buf = nil; return b }

func (f *reframe12) Write(p []byte) ([]byte, int) {
	if f.Lost {
		return p, kit.CutNone
	}
	f.buf = append(f.buf, p...)
	var out []byte
	for len(f.buf) >= 5 {
		n := int(f.buf[3])<<8 | int(f.buf[4])
		if len(f.buf) < 5+n {
			break
		}
		rec := append([]byte(nil), f.buf[:5+n]...)
		f.buf = f.buf[5+n:]
		if !f.active {
			out = append(out, rec...)
			if rec[0] == recCCS {
				cr, sr := f.Hello()
				var master []byte
				if cr != nil {
					master = parseKeyLog(f.KeyLog.Bytes())[hexString(cr)]
				}
				if master == nil || sr == nil {
					f.Lost = true // resumed session without key log line, or hellos not seen: stay transparent
					out = append(out, f.buf...)
					f.buf = nil
					return out, kit.CutNone
				}
				c1, s1 := newRec12Pair(f.Vers, f.Suite, master, cr, sr)
				c2, s2 := newRec12Pair(f.Vers, f.Suite, master, cr, sr)
				if f.IsClient {
					f.in, f.out = c1, c2
				} else {
					f.in, f.out = s1, s2
				}
				f.active = true
			}
			continue
		}
		frag, ok := f.in.open(rec)
		if !ok {
			f.Lost = true
			f.fire("reframe12.lost")
			out = append(out, rec...)
			out = append(out, f.buf...)
			f.buf = nil
			break
		}
		out = append(out, f.emit(rec[0], frag)...)
	}
	return out, kit.CutNone
}

func (f *reframe12) pad() int {
	if f.out.block == nil || !f.Rng.Chance(1, 2) {
		return 0
	}
	f.fire("reframe12.long_cbc_padding")
	return []int{1, 2, 3, 7, 15, 31}[f.Rng.Intn(6)] // whole blocks; capped at 255 bytes by seal
}

func (f *reframe12) emit(typ byte, frag []byte) []byte {
	r := f.Rng
	if typ != recAppData || f.Rate <= 0 || !r.Chance(1, f.Rate) {
		if typ == recAppData && len(frag) > 0 {
			f.empties = 0
		}
		return f.out.seal(typ, frag, 0, r)
	}
	var out []byte
	if r.Chance(1, 3) && f.empties < 6 {
		// a zero-length application_data fragment (RFC 5246 6.2.1 allows them; OpenSSL sends one before each record
		// as its TLS 1.0 CBC countermeasure)
		out = append(out, f.out.seal(recAppData, nil, f.pad(), r)...)
		f.empties++
		f.fire("reframe12.empty_record")
	}
	if len(frag) >= 2 && r.Chance(1, 2) {
		k := 1 + r.Intn(len(frag)-1)
		if r.Chance(1, 3) {
			k = []int{1, len(frag) - 1}[r.Intn(2)]
		}
		out = append(out, f.out.seal(typ, frag[:k], f.pad(), r)...)
		out = append(out, f.out.seal(typ, frag[k:], f.pad(), r)...)
		f.fire("reframe12.split")
	} else {
		out = append(out, f.out.seal(typ, frag, f.pad(), r)...)
	}
	if len(frag) > 0 {
		f.empties = 0
	}
	return out
}

func hexString(b []byte) string {
	const d = "0123456789abcdef"
	o := make([]byte, 0, 2*len(b))
	for _, x := range b {
		o = append(o, d[x>>4], d[x&15])
	}
	return string(o)
}
