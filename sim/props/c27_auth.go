package props

import (
	"crypto"
	"fmt"
	"io"
	"testing"
	"time"

	"github.com/zmap/zcrypto/tls"
	"verifsim/kit"
)

// C27: scenario matrix version x key exchange x server-certificate scenario x
// client-auth mode x client-certificate scenario. Faults come through the
// crypto.Signer seam (Byzantine signer), the Config.Time seam (clock skew), the
// certificate/key configuration (wrong key, untrusted, misnamed, missing
// intermediate) and one protocol-aware transport rewrite (signature bytes of a
// clear-text ServerKeyExchange). A hand-written decision table says which end
// must fail and which must complete.

var c27ServerScen = []string{"trusted", "untrusted", "expired", "notyet", "wrongname", "wrongkey", "badsig", "nointer", "ip_ok", "ip_mismatch", "expired_root", "root_still_valid",
	"pathlen", "under_leaf", "resume_ok", "resume_expired", "cn_without_dns_san", "odd_eku", "forged_leaf", "forged_inter", "name_prefix", "no_certsign", "eku_date_mix", "wrongkey_type", "probe_then_verify"}
var c27ClientScen = []string{"none", "trusted", "untrusted", "expired", "wrongkey", "badsig", "pathlen", "under_leaf", "odd_eku", "forged_leaf", "no_certsign", "eku_date_mix"}

type c27Scenario struct {
	Seed       uint64 `json:"seed"`
	Version    uint16 `json:"version"`
	Suite      uint16 `json:"suite"`
	Key        string `json:"key"`
	ServerScen string `json:"server_scenario"`
	AuthMode   int    `json:"client_auth_mode"` // tls.ClientAuthType value 0..4
	ClientScen string `json:"client_scenario"`
	ClientKey  string `json:"client_key"`
	Net        NetCfg `json:"net"`
	Tape       []int  `json:"tape,omitempty"`
}

// byzSigner corrupts every signature it produces: one flipped bit, or (mode) another length — the last byte cut off,
// a byte appended, or no signature bytes at all.
type byzSigner struct {
	inner crypto.Signer
	fired *int
	mode  int // 0 flip, 1 truncate by one, 2 extend by one, 3 empty
}

func (b byzSigner) Public() crypto.PublicKey { return b.inner.Public() }
func (b byzSigner) Sign(r io.Reader, digest []byte, opts crypto.SignerOpts) ([]byte, error) {
	sig, err := b.inner.Sign(r, digest, opts)
	if err == nil && len(sig) > 0 {
		switch b.mode {
		case 1:
			sig = sig[:len(sig)-1]
		case 2:
			sig = append(sig, 0x01)
		case 3:
			sig = sig[:0]
		default:
			sig[len(sig)/2] ^= 0x04
		}
		*b.fired++
	}
	return sig, err
}

// byzDecrypter additionally forwards RSA decryption unchanged so that the key
// still works for RSA key exchange.
type byzDecrypter struct{ byzSigner }

func (b byzDecrypter) Decrypt(r io.Reader, msg []byte, opts crypto.DecrypterOpts) ([]byte, error) {
	return b.inner.(crypto.Decrypter).Decrypt(r, msg, opts)
}

// skxSigFlipper flips one bit in the last byte of the ServerKeyExchange message
// (the end of its signature) on the clear-text server flight of TLS <= 1.2.
type skxSigFlipper struct {
	buf   []byte
	Fired int
	done  bool
}

func (f *skxSigFlipper) Write(p []byte) ([]byte, int) {
	if f.done {
		return p, kit.CutNone
	}
	f.buf = append(f.buf, p...)
	var out []byte
	for len(f.buf) >= 5 {
		n := int(f.buf[3])<<8 | int(f.buf[4])
		if len(f.buf) < 5+n {
			break
		}
		rec := append([]byte(nil), f.buf[:5+n]...)
		f.buf = f.buf[5+n:]
		if rec[0] == recCCS {
			f.done = true
		}
		if rec[0] == recHandshake && n >= 8 && rec[5] == hsServerKeyExchange {
			l := int(rec[6])<<16 | int(rec[7])<<8 | int(rec[8])
			if l == n-4 {
				rec[len(rec)-1] ^= 0x01
				f.Fired++
				f.done = true
			}
		}
		out = append(out, rec...)
		if f.done {
			out = append(out, f.buf...)
			f.buf = nil
			break
		}
	}
	return out, kit.CutNone
}
func (f *skxSigFlipper) Closed() []byte { b := f.buf; f.buf = nil; return b }

// c27MixChain: the issuing CA exists in two certificates for the same subject and key — one expired (usable for TLS),
// one valid whose extended key usage allows e-mail protection only. No path is both valid now and usable for TLS
// authentication, whichever of the two the peer sends and in whatever order.
func c27MixChain(leaf *kit.Cert, pick uint64) [][]byte {
	p := pki()
	switch pick % 4 {
	case 0:
		return [][]byte{leaf.DER, p.MixExpired.DER, p.MixEmail.DER}
	case 1:
		return [][]byte{leaf.DER, p.MixEmail.DER, p.MixExpired.DER}
	case 2:
		return [][]byte{leaf.DER, p.MixExpired.DER}
	}
	return [][]byte{leaf.DER, p.MixEmail.DER}
}

func genC27(seed uint64, tier string) any {
	r := kit.NewRng(seed)
	sc := &c27Scenario{Seed: seed}
	for {
		pr := c25Pairs[r.Intn(len(c25Pairs))]
		sc.Version, sc.Suite = pr[0], pr[1]
		si := suiteByID[sc.Suite]
		// one representative per (version, key exchange, cipher class) is enough here: prefer AEAD/CBC-SHA
		if si.Class == ccRC4 || si.Class == cc3DES {
			if !r.Chance(1, 4) {
				continue
			}
		}
		break
	}
	sc.Key = keyForSuite(r, suiteByID[sc.Suite], sc.Version)
	sc.ServerScen = c27ServerScen[r.Pick([]int{9, 1, 1, 1, 1, 2, 2, 1, 1, 1, 1, 1, 1, 1, 1, 2, 1, 1, 1, 1, 1, 1, 1, 2, 1})]
	sc.AuthMode = r.Intn(5)
	sc.ClientScen = c27ClientScen[r.Pick([]int{2, 3, 1, 1, 2, 2, 1, 1, 1, 1, 1, 1})]
	sc.ClientKey = []string{"rsa", "p256", "p384", "ed"}[r.Pick([]int{3, 3, 1, 2})]
	if sc.ClientKey == "ed" && sc.Version < vTLS12 {
		sc.ClientKey = "p256"
	}
	sc.Net = genNet(r)
	return sc
}

type c27Expect struct {
	Applicable     bool
	ClientMustFail bool
	ServerMustFail bool
	Reason         string
}

func c27Table(sc *c27Scenario) c27Expect {
	e := c27Expect{Applicable: true}
	si := suiteByID[sc.Suite]
	switch sc.ServerScen {
	case "trusted", "ip_ok", "root_still_valid", "resume_ok", "resume_expired", "probe_then_verify": // resume_expired, probe_then_verify: the second connection is judged in execC27
	case "badsig":
		if si.Kx == kxRSA {
			// RSA key exchange carries no server signature; possession is proven by decryption ("wrongkey" covers it)
			e.Applicable = false
			return e
		}
		e.ClientMustFail = true
		e.Reason = "server signature corrupted"
	default:
		e.ClientMustFail = true
		e.Reason = "server certificate scenario " + sc.ServerScen
	}
	if e.ClientMustFail {
		e.ServerMustFail = true // the server cannot complete without the client's Finished
		return e
	}
	requested := sc.AuthMode >= 1
	sent := requested && sc.ClientScen != "none"
	switch {
	case !requested:
	case !sent:
		if sc.AuthMode == int(tls.RequireAnyClientCert) || sc.AuthMode == int(tls.RequireAndVerifyClientCert) {
			e.ServerMustFail = true
			e.Reason = "client certificate required but none given"
		}
	default:
		if sc.ClientScen == "wrongkey" || sc.ClientScen == "badsig" {
			e.ServerMustFail = true
			e.Reason = "client does not prove possession (" + sc.ClientScen + ")"
		} else if (sc.ClientScen == "untrusted" || sc.ClientScen == "expired" || sc.ClientScen == "pathlen" || sc.ClientScen == "under_leaf" || sc.ClientScen == "odd_eku" || sc.ClientScen == "forged_leaf" || sc.ClientScen == "no_certsign" || sc.ClientScen == "eku_date_mix") &&
			(sc.AuthMode == int(tls.VerifyClientCertIfGiven) || sc.AuthMode == int(tls.RequireAndVerifyClientCert)) {
			e.ServerMustFail = true
			e.Reason = "client chain does not verify (" + sc.ClientScen + ")"
		}
	}
	return e
}

func execC27(t *testing.T, scAny any, keepLog bool) *Outcome {
	sc := scAny.(*c27Scenario)
	o := &Outcome{Counters: map[string]int{}}
	exp := c27Table(sc)
	if !exp.Applicable {
		o.count("probe.cell_not_applicable", 1)
		return o
	}
	kit.Bubble(t, func() {
		run := newSimRun(sc.Seed, sc.Tape, keepLog)
		s := run.S
		p := pki()
		history := sc.ServerScen == "resume_ok" || sc.ServerScen == "resume_expired" || sc.ServerScen == "probe_then_verify"
		ecfg := EndCfg{MinVersion: sc.Version, MaxVersion: sc.Version, Suites: []uint16{sc.Suite}, ForceSuites: true, KeyKind: sc.Key, NoTickets: !history}
		scfg := serverConfig(ecfg, s, run.R.Derive("srv-rand"))
		ccfg := clientConfig(ecfg, s, run.R.Derive("cli-rand"))
		scfg.ClientAuth = tls.ClientAuthType(sc.AuthMode)
		byzFired := 0
		var filter kit.Filter
		var flipper *skxSigFlipper
		kind := sc.Key
		skew := func(d time.Duration) func() time.Time { return func() time.Time { return s.Now().Add(d) } }
		switch sc.ServerScen {
		case "untrusted":
			scfg.Certificates = []tls.Certificate{tlsCert(p.ServerUntrusted[kind], false, keyOfKind[kind])}
		case "expired":
			scfg.Certificates = []tls.Certificate{tlsCert(p.ServerShort[kind], true, keyOfKind[kind])}
			ccfg.Time = skew(60 * 24 * time.Hour)
			o.count("fault.clock_skew_client", 1)
		case "notyet":
			scfg.Certificates = []tls.Certificate{tlsCert(p.ServerShort[kind], true, keyOfKind[kind])}
			ccfg.Time = skew(-61 * 24 * time.Hour)
			o.count("fault.clock_skew_client", 1)
		case "wrongname":
			scfg.Certificates = []tls.Certificate{tlsCert(p.ServerWrongName[kind], true, keyOfKind[kind])}
		case "wrongkey":
			scfg.Certificates = []tls.Certificate{tlsCert(p.Server[kind], true, otherKeyOfKind[kind])}
			o.count("fault.wrong_key_server", 1)
		case "badsig":
			if suiteByID[sc.Suite].Kx == kxDHERSA {
				flipper = &skxSigFlipper{}
				filter = flipper
			} else {
				c := tlsCert(p.Server[kind], true, keyOfKind[kind])
				inner := c.PrivateKey.(crypto.Signer)
				if _, ok := inner.(crypto.Decrypter); ok {
					c.PrivateKey = byzDecrypter{byzSigner{inner, &byzFired, int(sc.Seed>>3) % 4}}
				} else {
					c.PrivateKey = byzSigner{inner, &byzFired, int(sc.Seed>>3) % 4}
				}
				scfg.Certificates = []tls.Certificate{c}
			}
		case "pathlen":
			// well-signed chain leaf <- CA <- intermediate with pathLenConstraint 0 <- trusted root
			scfg.Certificates = []tls.Certificate{{Certificate: [][]byte{p.ServerDeep[kind].DER, p.DeepCA.DER, p.Inter.DER}, PrivateKey: kit.TLSKey(keyOfKind[kind])}}
		case "cn_without_dns_san":
			// the name is in the subject's common name only; the subjectAltName extension is present (an IP address) and
			// therefore authoritative (RFC 6125 6.4.4)
			scfg.Certificates = []tls.Certificate{tlsCert(p.ServerCNOnly[kind], true, keyOfKind[kind])}
		case "forged_leaf":
			// the leaf names a trusted ECDSA CA as its issuer; its signature is well-formed but made with another key
			scfg.Certificates = []tls.Certificate{{Certificate: [][]byte{p.ServerForgedLeaf[kind].DER, p.InterEC.DER}, PrivateKey: kit.TLSKey(keyOfKind[kind])}}
		case "forged_inter":
			// the intermediate names the trusted (ECDSA) root as its issuer but was signed with another key
			scfg.Certificates = []tls.Certificate{{Certificate: [][]byte{p.ServerUnderForged[kind].DER, p.ForgedInter.DER}, PrivateKey: kit.TLSKey(keyOfKind[kind])}}
		case "wrongkey_type":
			// a trusted, correctly named chain whose leaf key is of another type than the key the server holds and
			// signs (or decrypts) with: the suite's authentication method does not match the certificate
			other := map[string]string{"rsa": "p256", "p256": "rsa", "p384": "rsa", "ed": "rsa"}[kind]
			scfg.Certificates = []tls.Certificate{tlsCert(p.Server[other], true, keyOfKind[kind])}
			o.count("fault.wrong_key_type_server", 1)
		case "probe_then_verify":
			// first an application probes the server without verification (InsecureSkipVerify) and caches the session;
			// the server's certificate chains to the trusted root but names another host. A later verifying
			// connection of the same application (same cache, same ServerName) must not get through on that session.
			scfg.Certificates = []tls.Certificate{tlsCert(p.ServerWrongName[kind], true, keyOfKind[kind])}
			ccfg.ClientSessionCache = tls.NewLRUClientSessionCache(4)
			ccfg.InsecureSkipVerify = true
		case "name_prefix":
			// the certificate's only name has fewer labels than the server name and equals / wildcard-matches its leading labels
			scfg.Certificates = []tls.Certificate{tlsCert(p.ServerPrefix[kind][int(sc.Seed>>4)%3], true, keyOfKind[kind])}
		case "no_certsign":
			// the issuing CA is CA:TRUE but its keyUsage does not assert keyCertSign (RFC 5280 4.2.1.3)
			scfg.Certificates = []tls.Certificate{{Certificate: [][]byte{p.ServerUnderNoSign[kind].DER, p.InterNoSign.DER}, PrivateKey: kit.TLSKey(keyOfKind[kind])}}
		case "eku_date_mix":
			scfg.Certificates = []tls.Certificate{{Certificate: c27MixChain(p.ServerUnderMix[kind], sc.Seed), PrivateKey: kit.TLSKey(keyOfKind[kind])}}
		case "odd_eku":
			// extended key usage present and without serverAuth / anyExtendedKeyUsage (one private OID)
			scfg.Certificates = []tls.Certificate{tlsCert(p.ServerOddEKU[kind], true, keyOfKind[kind])}
		case "under_leaf":
			// the "issuer" is an end-entity certificate (no CA flag)
			scfg.Certificates = []tls.Certificate{{Certificate: [][]byte{p.ServerUnderLeaf[kind].DER, p.Server["p256"].DER, p.Inter.DER}, PrivateKey: kit.TLSKey(keyOfKind[kind])}}
		case "resume_ok", "resume_expired":
			// two connections sharing a client session cache; the certificate is valid until 2000-02-01. The client's
			// clock stands at 2000-01-29 for the first connection and is moved by one day (still valid) or four days
			// (expired; the ticket is younger than its lifetime) before the second.
			scfg.Certificates = []tls.Certificate{tlsCert(p.ServerShort[kind], true, keyOfKind[kind])}
			ccfg.ClientSessionCache = tls.NewLRUClientSessionCache(4)
			ccfg.Time = skew(28 * 24 * time.Hour)
		case "nointer":
			scfg.Certificates = []tls.Certificate{tlsCert(p.Server[kind], false, keyOfKind[kind])}
		case "ip_ok":
			// the client addresses the server by an IP literal that the certificate lists
			scfg.Certificates = []tls.Certificate{tlsCert(p.ServerIP[kind], true, keyOfKind[kind])}
			ccfg.ServerName = "10.1.2.3"
		case "ip_mismatch":
			// IP-literal server name, certificate valid for the DNS name only
			ccfg.ServerName = "10.1.2.3"
		case "expired_root", "root_still_valid":
			c := tls.Certificate{Certificate: [][]byte{p.ServerShortRoot[kind].DER, p.ShortInter.DER}, PrivateKey: kit.TLSKey(keyOfKind[kind])}
			scfg.Certificates = []tls.Certificate{c}
			ccfg.RootCAs = p.ShortRootPool
			if sc.ServerScen == "expired_root" {
				ccfg.Time = skew(60 * 24 * time.Hour) // the trust anchor has expired, leaf and intermediate have not
				o.count("fault.clock_skew_client", 1)
			}
		}
		ck := sc.ClientKey
		var ccert *tls.Certificate
		switch sc.ClientScen {
		case "trusted":
			c := tlsCert(p.Client[ck], true, clientKeyOfKind[ck])
			ccert = &c
		case "untrusted":
			c := tlsCert(p.ClientUntrusted[ck], false, clientKeyOfKind[ck])
			ccert = &c
		case "expired":
			c := tlsCert(p.ClientShort[ck], true, clientKeyOfKind[ck])
			ccert = &c
			scfg.Time = skew(60 * 24 * time.Hour)
			o.count("fault.clock_skew_server", 1)
		case "pathlen":
			ccert = &tls.Certificate{Certificate: [][]byte{p.ClientDeep[ck].DER, p.DeepCA.DER, p.Inter.DER}, PrivateKey: kit.TLSKey(clientKeyOfKind[ck])}
		case "odd_eku":
			c := tlsCert(p.ClientOddEKU[ck], true, clientKeyOfKind[ck])
			ccert = &c
		case "no_certsign":
			ccert = &tls.Certificate{Certificate: [][]byte{p.ClientUnderNoSign[ck].DER, p.InterNoSign.DER}, PrivateKey: kit.TLSKey(clientKeyOfKind[ck])}
		case "eku_date_mix":
			ccert = &tls.Certificate{Certificate: c27MixChain(p.ClientUnderMix[ck], sc.Seed>>2), PrivateKey: kit.TLSKey(clientKeyOfKind[ck])}
		case "forged_leaf":
			ccert = &tls.Certificate{Certificate: [][]byte{p.ClientForgedLeaf[ck].DER, p.InterEC.DER}, PrivateKey: kit.TLSKey(clientKeyOfKind[ck])}
		case "under_leaf":
			ccert = &tls.Certificate{Certificate: [][]byte{p.ClientUnderLeaf[ck].DER, p.Server["p256"].DER, p.Inter.DER}, PrivateKey: kit.TLSKey(clientKeyOfKind[ck])}
		case "wrongkey":
			c := tlsCert(p.Client[ck], true, otherKeyOfKind[ck])
			ccert = &c
			o.count("fault.wrong_key_client", 1)
		case "badsig":
			c := tlsCert(p.Client[ck], true, clientKeyOfKind[ck])
			c.PrivateKey = byzSigner{c.PrivateKey.(crypto.Signer), &byzFired, int(sc.Seed>>5) % 4}
			ccert = &c
		}
		certRequested := false
		if ccert != nil {
			ccfg.GetClientCertificate = func(*tls.CertificateRequestInfo) (*tls.Certificate, error) {
				certRequested = true
				return ccert, nil
			}
		}
		co := startConn(run, "a", ccfg, scfg, sc.Net, nil)
		if filter != nil {
			co.SNet.SetFilter(filter)
		}
		s.Run()
		if history {
			// first connection: everything is in order and must complete
			if co.CErr != nil || co.SErr != nil {
				if !exp.ServerMustFail {
					o.Fail = Failf("c27.good_fails", "handshake failed although every check should pass", "first connection of a resumption history, suite %04x key %s: client err %v server err %v", sc.Suite, sc.Key, co.CErr, co.SErr)
				}
			} else {
				d := 29 * 24 * time.Hour
				if sc.ServerScen == "probe_then_verify" {
					d = 0
					ccfg = ccfg.Clone()
					ccfg.InsecureSkipVerify = false
					exp.ClientMustFail, exp.ServerMustFail = true, true
					exp.Reason = "server certificate names another host (second, verifying connection; the session of an unverified probe is cached)"
					o.count("fault.unverified_probe_session_cached", 1)
				}
				if sc.ServerScen == "resume_expired" {
					d = 32*24*time.Hour + time.Hour
					exp.ClientMustFail, exp.ServerMustFail = true, true
					exp.Reason = "server certificate expired at the client's configured time (second connection, session cached)"
					o.count("fault.clock_skew_client", 1)
				}
				ccfg.Time = skew(d)
				co = startConn(run, "b", ccfg, scfg, sc.Net, nil)
				s.Run()
				if co.CState.DidResume {
					o.count("probe.second_connection_resumed", 1)
				}
			}
		}
		if byzFired > 0 {
			o.count("fault.byzantine_signature", byzFired)
		}
		if flipper != nil && flipper.Fired > 0 {
			o.count("fault.skx_signature_rewrite", flipper.Fired)
		}
		if certRequested {
			o.count("probe.client_cert_requested", 1)
		}
		cell := fmt.Sprintf("%04x/%d/%s/%d/%s", sc.Version, suiteByID[sc.Suite].Kx, sc.ServerScen, sc.AuthMode, sc.ClientScen)
		// a fault that was planned but never exercised proves nothing about this cell
		if sc.ServerScen == "badsig" && byzFired == 0 && (flipper == nil || flipper.Fired == 0) {
			o.Fail = Failf("c27.harness", "signature fault did not fire", "cell %s: client err %v server err %v", cell, co.CErr, co.SErr)
		}
		cOK := co.CErr == nil
		sOK := co.SErr == nil
		clientHS := co.CState.HandshakeComplete
		serverHS := co.SState.HandshakeComplete
		switch {
		case o.Fail != nil:
		case exp.ClientMustFail && clientHS:
			o.Fail = Failf("c27.client_accepts", "client completed the handshake: "+exp.Reason, "cell %s suite %04x key %s", cell, sc.Suite, sc.Key)
		case exp.ServerMustFail && serverHS:
			o.Fail = Failf("c27.server_accepts", "server completed the handshake: "+exp.Reason, "cell %s suite %04x client key %s", cell, sc.Suite, sc.ClientKey)
		case exp.ClientMustFail && len(co.CGot) > 0:
			o.Fail = Failf("c27.data", "application data delivered to a client that had to reject the server", "cell %s: %q", cell, co.CGot)
		case exp.ServerMustFail && len(co.SGot) > 0:
			o.Fail = Failf("c27.data", "application data delivered to a server that had to reject the client", "cell %s: %q", cell, co.SGot)
		case !exp.ClientMustFail && !exp.ServerMustFail && !(cOK && sOK):
			o.Fail = Failf("c27.good_fails", "handshake failed although every check should pass", "cell %s suite %04x key %s client key %s: client err %v server err %v", cell, sc.Suite, sc.Key, sc.ClientKey, co.CErr, co.SErr)
		}
		if o.Fail == nil {
			if exp.ClientMustFail || exp.ServerMustFail {
				o.count("probe.rejected_as_required", 1)
			} else {
				o.count("probe.accepted_as_required", 1)
				if sc.AuthMode >= 1 && sc.ClientScen != "none" {
					if len(co.SState.PeerCertificates) == 0 {
						o.Fail = Failf("c27.peercerts", "server completed with a client certificate but reports no peer certificates", "cell %s", cell)
					}
				}
			}
		}
		if o.Fail == nil && (len(s.Deadlock) > 0 || s.StepCapHit) {
			o.Fail = Failf("c27.stuck", "tasks did not finish", "deadlock=%v", s.Deadlock)
		}
		for _, pn := range s.Panics() {
			o.Fail = Failf("c27.panic", panicSite(pn.Stack), "task %s panicked: %v\n%s", pn.Name, pn.PanicVal, pn.Stack)
		}
		finishOutcome(o, s)
		h := kit.NewHash64()
		h.WriteString(cell)
		h.WriteString(fmt.Sprintf("%04x %s %s", sc.Suite, sc.Key, sc.ClientKey))
		o.Distinct = h.Sum()
		o.Nontrivial = true
	})
	return o
}

func shrinkC27(scAny any) []any {
	sc := scAny.(*c27Scenario)
	var out []any
	for _, f := range []func(c *c27Scenario){
		func(c *c27Scenario) { c.Net = NetCfg{} },
		func(c *c27Scenario) { c.ClientScen = "none" },
		func(c *c27Scenario) { c.AuthMode = 0 },
		func(c *c27Scenario) { c.ServerScen = "trusted" },
		func(c *c27Scenario) { c.Tape = nil },
	} {
		c := *sc
		f(&c)
		if fmt.Sprint(c) != fmt.Sprint(*sc) {
			out = append(out, &c)
		}
	}
	return out
}

func init() {
	register(&Prop{
		ID: "C27", Level: "fault_enumeration", Engine: "A (lockstep scheduler, simnet, synctest bubble)",
		Rule: "cells of the matrix version x suite(key exchange) x server scenario x client-auth mode x client scenario sampled uniformly with seeds (server/client key types and transport parameters seeded); every run is non-trivial; distinct = distinct (cell, suite, key types)",
		Real:   []string{"tls client/server certificate verification, ServerKeyExchange and CertificateVerify signing and verification, client-auth modes, all versions"},
		Stub:   []string{"transport", "clocks (per-node skew through Config.Time)", "entropy", "PKI", "Byzantine crypto.Signer wrappers"},
		Assume: []string{"only success vs failure is asserted, never the error kind", "RSA key exchange has no server signature: the corrupted-signature cell is skipped there"},
		FaultKinds: []string{"fault.byzantine_signature", "fault.skx_signature_rewrite", "fault.clock_skew_client", "fault.clock_skew_server", "fault.wrong_key_server", "fault.wrong_key_client",
			"probe.rejected_as_required", "probe.accepted_as_required", "probe.client_cert_requested", "probe.cell_not_applicable"},
		NotInjected: "wire faults other than the one signature rewrite are not injected here (C25/C32); no storage",
		Gen:         genC27, New: func() any { return &c27Scenario{} }, Exec: execC27, Shrink: shrinkC27,
		QuickRuns: 12000, ThoroughRuns: 600000,
	})
}
