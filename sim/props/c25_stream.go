package props

import (
	"bytes"
	"fmt"
	"io"
	"strings"
	"testing"
	"time"

	"github.com/zmap/zcrypto/tls"
	"verifsim/kit"
)

// C25: after a handshake under a seeded (version, suite), application data is
// exchanged in half-duplex phases over a re-segmenting transport. Fault-free
// runs must deliver exactly what was written; fault runs place 1-3 wire
// faults inside post-handshake records and the receiver must deliver only a
// prefix that ends before the first disturbed record, and return an error.

type c25Phase struct {
	Dir    int   `json:"dir"` // 0 client writes, 1 server writes
	Writes []int `json:"writes"`
}

type c25Scenario struct {
	Seed    uint64      `json:"seed"`
	Version uint16      `json:"version"`
	Suite   uint16      `json:"suite"`
	Key     string      `json:"key"`
	Net     NetCfg      `json:"net"`
	Phases  []c25Phase  `json:"phases"`
	ReadMax int         `json:"read_max"` // reader buffer sizes are drawn in [1, ReadMax]
	NoBEAST bool        `json:"no_beast,omitempty"`
	NoDyn   bool        `json:"no_dyn,omitempty"`
	Faults  []wireFault `json:"faults,omitempty"`
	Reframe *c25Reframe `json:"reframe,omitempty"` // TLS 1.3, fault-free runs: a peer that frames its records differently (legal per RFC 8446)
	// ReadDlUs > 0: the readers work with short read deadlines (this many simulated microseconds per Read) and simply
	// read on after a timeout — with a slow, re-segmenting transport the deadline often fires inside a record
	ReadDlUs int `json:"read_deadline_us,omitempty"`
	// HalfClose: bit d set = side d calls CloseWrite as soon as it has nothing more to send and then reads on
	HalfClose int `json:"half_close,omitempty"`
	Tape    []int       `json:"tape,omitempty"`
}

type c25Reframe struct {
	Dirs       int `json:"dirs"` // bit 0: client→server, bit 1: server→client
	Rate       int `json:"rate"`
	KeyUpdates int `json:"key_updates"`
}

var c25Sizes = []int{0, 1, 2, 3, 7, 8, 15, 16, 17, 31, 32, 33, 100, 255, 256, 1000, 1207, 1208, 1209, 1400, 4096, 16383, 16384, 16385, 20000, 32768, 32769, 50000, 70000}

func versionSuitePairs() (out [][2]uint16) {
	for _, v := range allVersions {
		for _, s := range suiteTable {
			if s.usableAt(v) {
				out = append(out, [2]uint16{v, s.ID})
			}
		}
	}
	return
}

var c25Pairs = versionSuitePairs()

func keyForSuite(r *kit.Rng, s *suiteInfo, v uint16) string {
	switch s.Kx {
	case kxECDHEECDSA:
		if v >= vTLS12 && r.Chance(1, 4) {
			return "ed"
		}
		if r.Chance(1, 4) {
			return "p384"
		}
		return "p256"
	case kxTLS13:
		return []string{"rsa", "p256", "p384", "ed"}[r.Intn(4)]
	}
	return "rsa"
}

func genC25(seed uint64, tier string) any {
	r := kit.NewRng(seed)
	sc := &c25Scenario{Seed: seed}
	pr := c25Pairs[r.Intn(len(c25Pairs))]
	sc.Version, sc.Suite = pr[0], pr[1]
	sc.Key = keyForSuite(r, suiteByID[sc.Suite], sc.Version)
	sc.Net = genNet(r)
	if r.Chance(1, 3) {
		sc.Net.Window = []int{16, 64, 1500, 4096, 20000}[r.Intn(5)]
		if sc.Net.Window < 1500 {
			// a tiny window costs one round trip per few bytes: keep latency small so the run stays short
			sc.Net.LatMinUs, sc.Net.LatMaxUs = 10, 60
		}
	}
	sc.NoBEAST = r.Chance(1, 4)
	sc.NoDyn = r.Chance(1, 3)
	sc.ReadMax = []int{1, 5, 100, 4096, 16384, 32768, 40000}[r.Intn(7)]
	faulty := r.Chance(1, 2)
	nph := r.Range(1, 3)
	dir := r.Intn(2)
	for i := 0; i < nph; i++ {
		ph := c25Phase{Dir: dir}
		n := r.Range(1, 6)
		for k := 0; k < n; k++ {
			var sz int
			if faulty || r.Chance(2, 3) {
				sz = c25Sizes[r.Intn(16)] // small: one record each (two with the 1/n-1 split)
			} else {
				sz = c25Sizes[r.Intn(len(c25Sizes))]
			}
			if r.Chance(1, 5) {
				sz = r.Intn(2000)
			}
			ph.Writes = append(ph.Writes, sz)
		}
		sc.Phases = append(sc.Phases, ph)
		dir = 1 - dir
	}
	if r.Chance(1, 30) {
		// many small records in one direction: sequence numbers beyond one byte
		ph := c25Phase{Dir: r.Intn(2)}
		for k := r.Range(258, 330); k > 0; k-- {
			ph.Writes = append(ph.Writes, 1+r.Intn(3))
		}
		sc.Phases = []c25Phase{ph}
		sc.Net.Window = 0
		if sc.Net.LatMaxUs > 200 {
			sc.Net.LatMinUs, sc.Net.LatMaxUs = 10, 60
		}
	}
	tot := 0
	for _, ph := range sc.Phases {
		for _, w := range ph.Writes {
			tot += w
		}
	}
	if sc.Net.Window > 0 && sc.Net.Window < 1500 && tot > 6000 {
		sc.Net.Window = 4096 // a tiny send window with a large stream only multiplies scheduler steps
	}
	if !faulty && sc.Version == vTLS13 && r.Chance(2, 3) {
		sc.Reframe = &c25Reframe{Dirs: 1 + r.Intn(3), Rate: 1 + r.Intn(3), KeyUpdates: r.Pick([]int{3, 2, 1})}
	}
	if !faulty && sc.Version != vTLS13 && r.Chance(1, 2) {
		// TLS 1.0-1.2: the peer's records are re-framed (ref12.go): long CBC padding, empty fragments, splits
		sc.Reframe = &c25Reframe{Dirs: 1 + r.Intn(3), Rate: 1 + r.Intn(3)}
	}
	if !faulty && r.Chance(1, 4) {
		sc.ReadDlUs = []int{20, 300, 5000, 60000}[r.Intn(4)]
		if sc.Net.LatMaxUs > 40*sc.ReadDlUs {
			sc.ReadDlUs = sc.Net.LatMaxUs / 40 // keep the number of timeouts per segment (and so the run length) bounded
		}
	}
	if !faulty && r.Chance(1, 4) {
		sc.HalfClose = 1 + r.Intn(3)
	}
	if faulty {
		nf := r.Pick([]int{0, 6, 2, 1})
		kinds := []string{"flip", "flip", "flip", "drop", "dup", "swap", "replay", "trunc", "insert"}
		regs := []string{"hdr_type", "hdr_vers", "hdr_len", "head", "body", "tail", "tail", "pad_far"}
		if sc.Version != vTLS13 && r.Chance(1, 3) {
			// the disturbed records come from a peer that pads generously and splits its records (ref12.go)
			sc.Reframe = &c25Reframe{Dirs: 3, Rate: 1}
		}
		for i := 0; i < nf; i++ {
			f := wireFault{Dir: r.Intn(2), Rec: r.Intn(6), Kind: kinds[r.Intn(len(kinds))], Off: r.Intn(1 << 16), Reg: regs[r.Intn(len(regs))], Bit: r.Intn(8), Ref: r.Intn(100), RST: r.Bool()}
			sc.Faults = append(sc.Faults, f)
		}
	}
	return sc
}

// pattern returns deterministic, position-dependent payload bytes so that any
// reordering or duplication of plaintext is visible.
func pattern(dir int, off, n int) []byte {
	b := make([]byte, n)
	for i := range b {
		x := uint32(off+i)*2654435761 + uint32(dir)*97
		b[i] = byte(x >> 13)
	}
	return b
}

type c25Side struct {
	conn     *tls.Conn
	net      *kit.Conn
	filter   *recFilter
	reframe  *reframe13
	reframe12 *reframe12
	shortWrite string // a Write that returned n < len(p) together with a nil error (io.Writer contract)
	wrote    []byte // accepted by Write (full writes only counted when err == nil)
	attempted []byte
	read     []byte
	readErr  error
	writeErr error
	hsErr    error
	maxRead  int
	recAfter []int // number of post-arm records on the wire after each Write returned
	wsize    []int
	done     bool
}

func execC25(t *testing.T, scAny any, keepLog bool) *Outcome {
	sc := scAny.(*c25Scenario)
	o := &Outcome{Counters: map[string]int{}}
	kit.Bubble(t, func() {
		run := newSimRun(sc.Seed, sc.Tape, keepLog)
		s := run.S
		s.MaxSteps = 300000
		ecfg := EndCfg{MinVersion: sc.Version, MaxVersion: sc.Version, Suites: []uint16{sc.Suite}, ForceSuites: true, KeyKind: sc.Key, NoBEAST: sc.NoBEAST, NoDynRec: sc.NoDyn, NoTickets: true}
		scfg := serverConfig(ecfg, s, run.R.Derive("srv-rand"))
		ccfg := clientConfig(ecfg, s, run.R.Derive("cli-rand"))
		cn, sn := s.Pipe("c", "s", sc.Net.params(), sc.Net.params())
		sides := [2]*c25Side{{net: cn}, {net: sn}}
		var keylog bytes.Buffer
		if sc.Reframe != nil {
			ccfg.KeyLogWriter, scfg.KeyLogWriter = &keylog, &keylog
		}
		for d := 0; d < 2; d++ {
			f := &recFilter{}
			for _, wf := range sc.Faults {
				if wf.Dir == d {
					f.Plan = append(f.Plan, wf)
				}
			}
			sides[d].filter = f
			sides[d].net.SetFilter(f)
			if sc.Reframe != nil && sc.Reframe.Dirs&(1<<uint(d)) != 0 && sc.Version != vTLS13 {
				rf := &reframe12{Vers: sc.Version, Suite: sc.Suite, IsClient: d == 0, KeyLog: &keylog, Rng: kit.NewRng(sc.Seed ^ uint64(0x12f0+d)), Rate: sc.Reframe.Rate,
					Hello: func() ([]byte, []byte) {
						ch, err1 := firstClientHello(sides[0].net.SentStream())
						sh, err2 := firstServerHello(sides[1].net.SentStream())
						if err1 != nil || err2 != nil {
							return nil, nil
						}
						return ch.Random, sh.Random
					}}
				sides[d].reframe12 = rf
				sides[d].net.SetFilter(chainFilter{rf, f})
			} else if sc.Reframe != nil && sc.Reframe.Dirs&(1<<uint(d)) != 0 {
				rf := &reframe13{Suite: sc.Suite, Label: []string{"CLIENT_TRAFFIC_SECRET_0", "SERVER_TRAFFIC_SECRET_0"}[d], KeyLog: &keylog,
					Rng: kit.NewRng(sc.Seed ^ uint64(0x13f0+d)), Rate: sc.Reframe.Rate, KeyUpdates: sc.Reframe.KeyUpdates, Tickets: 2}
				sides[d].reframe = rf
				sides[d].net.SetFilter(chainFilter{rf, f})
			}
		}
		sides[0].conn = tls.Client(cn, ccfg)
		sides[1].conn = tls.Server(sn, scfg)
		total := [2]int{}
		for _, ph := range sc.Phases {
			for _, w := range ph.Writes {
				total[ph.Dir] += w
			}
		}
		rr := run.R.Derive("readsizes")
		body := func(me int) {
			sd := sides[me]
			c := sd.conn
			defer func() { sd.done = true }()
			c.SetDeadline(s.Now().Add(5 * time.Minute))
			if sd.hsErr = c.Handshake(); sd.hsErr != nil {
				c.Close()
				return
			}
			sd.filter.Armed = true
			expectIn := 0
			lastWrite := -1
			for i, ph := range sc.Phases {
				if ph.Dir == me {
					lastWrite = i
				}
			}
			spins := 0
			for pi, ph := range sc.Phases {
				if pi == lastWrite+1 && sc.HalfClose&(1<<uint(me)) != 0 {
					// nothing more to send: half-close, then keep reading what the peer still sends
					c.CloseWrite()
					o.count("probe.half_closed_then_read", 1)
				}
				if ph.Dir == me {
					for _, n := range ph.Writes {
						p := pattern(me, len(sd.attempted), n)
						sd.attempted = append(sd.attempted, p...)
						k, err := c.Write(p)
						if err == nil && k != len(p) {
							sd.shortWrite = fmt.Sprintf("Write of %d bytes returned (%d, nil)", len(p), k)
						}
						sd.wrote = append(sd.wrote, p[:k]...)
						sd.recAfter = append(sd.recAfter, sd.filter.idx)
						sd.wsize = append(sd.wsize, n)
						if err != nil {
							sd.writeErr = err
							c.Close()
							return
						}
					}
				} else {
					for _, n := range ph.Writes {
						expectIn += n
					}
					for len(sd.read) < expectIn {
						buf := make([]byte, 1+rr.Intn(sc.ReadMax))
						if sc.ReadDlUs > 0 {
							c.SetReadDeadline(s.Now().Add(time.Duration(sc.ReadDlUs) * time.Microsecond))
						}
						t0 := s.Now()
						k, err := c.Read(buf)
						if ne, ok := err.(interface{ Timeout() bool }); sc.ReadDlUs > 0 && ok && ne.Timeout() && spins < 20 {
							// a read deadline is not the end of the stream: read on (a Read that keeps timing out without
							// any simulated time passing is given up after 20 rounds and shows as an incomplete stream)
							spins++
							if k > 0 || s.Now().After(t0) {
								spins = 0
							}
							sd.read = append(sd.read, buf[:k]...)
							o.count("probe.read_resumed_after_deadline", 1)
							continue
						}
						if k > sd.maxRead {
							sd.maxRead = k
						}
						sd.read = append(sd.read, buf[:k]...)
						if err == io.EOF && k > 0 && len(sd.read) >= expectIn {
							// documented: Read may return (n, io.EOF) when the peer's close_notify directly follows the data
							break
						}
						if err != nil {
							sd.readErr = err
							c.Close()
							return
						}
					}
				}
			}
			c.Close()
		}
		s.Go("client", func() { body(0) })
		s.Go("server", func() { body(1) })
		s.Run()

		o.Fail = c25Check(sc, sides, total, o)
		if o.Fail == nil && (len(s.Deadlock) > 0 || s.StepCapHit) {
			o.Fail = Failf("c25.stuck", "tasks did not finish", "deadlock=%v stepcap=%v", s.Deadlock, s.StepCapHit)
		}
		for _, p := range s.Panics() {
			o.Fail = Failf("c25.panic", "panic", "task %s panicked: %v\n%s", p.Name, p.PanicVal, p.Stack)
		}
		finishOutcome(o, s)
		h := kit.NewHash64()
		h.WriteU64(s.TapeHash())
		h.WriteString(fmt.Sprintf("%04x %04x %s %+v %+v %+v", sc.Version, sc.Suite, sc.Key, sc.Phases, sc.Faults, sc.Net))
		o.Distinct = h.Sum()
		o.Nontrivial = sides[0].hsErr == nil && sides[1].hsErr == nil && total[0]+total[1] > 0
	})
	return o
}

func c25Check(sc *c25Scenario, sides [2]*c25Side, total [2]int, o *Outcome) *Failure {
	si := suiteByID[sc.Suite]
	class := []string{"rc4", "3des", "aescbc", "aesgcm", "chacha"}[si.Class]
	tag := fmt.Sprintf("%04x.%s", sc.Version, class)
	if sides[0].hsErr != nil || sides[1].hsErr != nil {
		if len(sides[0].filter.Fired)+len(sides[1].filter.Fired) > 0 {
			// one end finished its handshake and already had a post-handshake record disturbed (e.g. a
			// reset that discards the still unread end of the handshake): the other end may legitimately fail
			o.count("probe.handshake_failed_after_fault", 1)
			return nil
		}
		return Failf("c25.handshake", "handshake failed for a negotiable (version, suite)", "version %04x suite %04x key %s: client %v server %v", sc.Version, sc.Suite, sc.Key, sides[0].hsErr, sides[1].hsErr)
	}
	st := sides[0].conn.ConnectionState()
	if st.Version != sc.Version || st.CipherSuite != sc.Suite {
		return Failf("c25.handshake", "negotiated parameters differ from the only ones offered", "got %04x/%04x want %04x/%04x", st.Version, st.CipherSuite, sc.Version, sc.Suite)
	}
	o.count("probe.stream."+tag, 1)
	for d := 0; d < 2; d++ {
		if rf := sides[d].reframe12; rf != nil {
			for k, n := range rf.Fired {
				o.count(k, n)
			}
			if rf.Lost {
				return Failf("c25.reframe.sync", "a protected record does not open under the RFC 5246 key block derived from the key log's master secret", "%s dir %d", tag, d)
			}
		}
		if rf := sides[d].reframe; rf != nil {
			for k, n := range rf.Fired {
				o.count(k, n)
			}
			if rf.Lost {
				return Failf("c25.reframe.sync", "a record of the application epoch does not open under the RFC 8446 key schedule", "%s dir %d", tag, d)
			}
		}
	}
	for d := 0; d < 2; d++ {
		if sides[d].shortWrite != "" {
			return Failf("c25.write_count", "Write reported fewer bytes than it was given without an error (a caller relying on the count re-sends bytes)", "%s side %d: %s", tag, d, sides[d].shortWrite)
		}
	}
	anyFired := false
	for d := 0; d < 2; d++ {
		snd, rcv := sides[d], sides[1-d]
		S, R := snd.attempted, rcv.read
		// always: what was read is a prefix of what the peer wrote
		if len(R) > len(S) || !bytes.Equal(R, S[:len(R)]) {
			i := 0
			for i < len(R) && i < len(S) && R[i] == S[i] {
				i++
			}
			return Failf("c25.prefix", "receiver delivered bytes that differ from what was sent", "%s dir %d: first difference at offset %d (read %d bytes, sent %d)", tag, d, i, len(R), len(S))
		}
		if rcv.maxRead > 16384 {
			return Failf("c25.recordsize", "a single Read returned more than 2^14 bytes", "%s dir %d: %d bytes", tag, d, rcv.maxRead)
		}
		ff := snd.filter.firstDisturbed()
		if ff == nil {
			continue
		}
		anyFired = true
		for _, f := range snd.filter.Fired {
			o.count("fault."+f.Kind, 1)
			o.count("faultclass."+class+"."+f.Kind, 1)
		}
		// plaintext that may legitimately be delivered: everything carried by records before the disturbed position
		limitRec := ff.Rec
		if ff.IncludesOriginal {
			limitRec = ff.Rec + 1
		}
		limit := 0
		prev := 0
		for i, n := range snd.wsize {
			after := snd.recAfter[i]
			if after <= limitRec {
				limit += n // all records of this write precede the disturbance
			} else if prev < limitRec {
				// the write straddles the disturbance: at most all but one byte of it can precede it
				if n > 0 {
					limit += n - 1
				}
			}
			prev = after
		}
		if len(R) > limit {
			return Failf("c25.fault.delivered", "receiver delivered data carried by or after a disturbed record", "%s dir %d fault %s at record %d: read %d bytes, at most %d precede the fault", tag, d, ff.Kind, ff.Rec, len(R), limit)
		}
		// the receiver must have noticed: an error (EOF and timeouts count) unless it never needed the disturbed part
		expected := 0
		for _, ph := range sc.Phases {
			if ph.Dir == d {
				for _, w := range ph.Writes {
					expected += w
				}
			}
		}
		if rcv.readErr == nil && len(R) >= expected && expected > limit {
			return Failf("c25.fault.noerror", "receiver completed without error although a record was disturbed", "%s dir %d fault %s", tag, d, ff.Kind)
		}
		if rcv.readErr != nil {
			o.count("probe.receiver_error_after_fault", 1)
		}
		// a stream that ends strictly inside a record (bytes of that record were dropped) must not be reported as a
		// clean end of stream: io.EOF is what Read returns for an orderly close
		if strings.HasPrefix(ff.Kind, "trunc") && len(snd.filter.Fired) == 1 && rcv.readErr == io.EOF {
			return Failf("c25.fault.cleaneof", "stream cut inside a record ("+ff.Kind+") is reported as a clean EOF", "%s dir %d fault %s at record %d: read %d of %d bytes, then io.EOF", tag, d, ff.Kind, ff.Rec, len(R), expected)
		}
	}
	if !anyFired {
		// fault-free (or the planned faults never reached): everything must arrive
		for d := 0; d < 2; d++ {
			snd, rcv := sides[d], sides[1-d]
			if snd.writeErr != nil || rcv.readErr != nil || len(rcv.read) != total[d] {
				return Failf("c25.intact", "fault-free stream not delivered completely", "%s dir %d: wrote %d read %d writeErr=%v readErr=%v", tag, d, total[d], len(rcv.read), snd.writeErr, rcv.readErr)
			}
		}
		o.count("probe.faultfree_complete", 1)
		// wire-level record checks on the undisturbed streams
		for d := 0; d < 2; d++ {
			recs, rest := parseRecords(sides[d].net.SentStream())
			if len(rest) != 0 {
				return Failf("c25.wire", "trailing partial record on the wire", "%s dir %d: %d bytes", tag, d, len(rest))
			}
			limit := 16384 + 2048
			if sc.Version == vTLS13 {
				limit = 16384 + 256
			}
			app := 0
			for _, r := range recs {
				if len(r.Body) > limit {
					return Failf("c25.recordsize", "record on the wire exceeds the protocol limit", "%s dir %d: record of %d bytes", tag, d, len(r.Body))
				}
				if r.Type == recAppData {
					app++
					// exact plaintext size for AEAD and stream suites
					pl := -1
					switch {
					case sc.Version == vTLS13:
						pl = len(r.Body) - 17
					case si.Class == ccAESGCM:
						pl = len(r.Body) - 24
					case si.Class == ccChaCha:
						pl = len(r.Body) - 16
					case si.Class == ccRC4:
						pl = len(r.Body) - si.MacLen
					}
					if pl > 16384 {
						return Failf("c25.recordsize", "record carries more than 2^14 plaintext bytes", "%s dir %d: %d", tag, d, pl)
					}
				}
			}
			o.count("probe.appdata_records", app)
		}
		if sc.Version == vTLS10 && (si.Class == ccAESCBC || si.Class == cc3DES) && !sc.NoBEAST {
			o.count("probe.tls10_cbc_split_path", 1)
		}
	}
	return nil
}

func shrinkC25(scAny any) []any {
	sc := scAny.(*c25Scenario)
	var out []any
	cp := func() *c25Scenario {
		c := *sc
		c.Faults = append([]wireFault(nil), sc.Faults...)
		c.Phases = nil
		for _, p := range sc.Phases {
			c.Phases = append(c.Phases, c25Phase{Dir: p.Dir, Writes: append([]int(nil), p.Writes...)})
		}
		return &c
	}
	for i := range sc.Faults {
		c := cp()
		c.Faults = dropIndex(c.Faults, i)
		out = append(out, c)
	}
	for i := len(sc.Phases) - 1; i >= 0; i-- {
		if len(sc.Phases) > 1 {
			c := cp()
			c.Phases = dropIndex(c.Phases, i)
			out = append(out, c)
		}
		for k := range sc.Phases[i].Writes {
			if len(sc.Phases[i].Writes) > 1 {
				c := cp()
				c.Phases[i].Writes = dropIndex(c.Phases[i].Writes, k)
				out = append(out, c)
			}
			if sc.Phases[i].Writes[k] > 1 {
				c := cp()
				c.Phases[i].Writes[k] /= 2
				out = append(out, c)
			}
		}
	}
	if sc.Net.SegMode != 0 || sc.Net.ShortReads || sc.Net.LatMaxUs != 0 || sc.Net.Window != 0 {
		c := cp()
		c.Net = NetCfg{}
		out = append(out, c)
	}
	if sc.ReadMax != 32768 {
		c := cp()
		c.ReadMax = 32768
		out = append(out, c)
	}
	if sc.Reframe != nil {
		c := cp()
		c.Reframe = nil
		out = append(out, c)
		if sc.Reframe.KeyUpdates > 0 {
			c := cp()
			r := *sc.Reframe
			r.KeyUpdates = 0
			c.Reframe = &r
			out = append(out, c)
		}
	}
	if sc.Tape != nil {
		c := cp()
		c.Tape = nil
		out = append(out, c)
	}
	return out
}

func init() {
	register(&Prop{
		ID: "C25", Level: "fault_enumeration", Engine: "A (lockstep scheduler, simnet with record-aware fault filter, synctest bubble)",
		Rule: "seeded (version, suite, key) x write sizes x read sizes x transport segmentation/window x 0-3 record-level wire faults; non-trivial = handshake completed and application bytes were exchanged; distinct = hash of (scenario, schedule tape)",
		Real:   []string{"tls.Conn Handshake/Read/Write/Close on both ends, all record protection code paths (CBC, RC4, AES-GCM, ChaCha20, TLS 1.3 AEAD)", "1/n-1 record split", "dynamic record sizing"},
		Stub:   []string{"transport (simnet)", "clock", "entropy", "PKI from fixed key pool"},
		Assume: []string{"a read timeout or EOF after a dropped/truncated tail counts as the receiver returning an error", "for a write that straddles the disturbed record at least one of its bytes is carried by or after that record"},
		FaultKinds: []string{"fault.flip.hdr_type", "fault.flip.hdr_vers", "fault.flip.hdr_len", "fault.flip.head", "fault.flip.body", "fault.flip.tail", "fault.flip.pad_far", "fault.drop", "fault.dup", "fault.swap", "fault.replay", "fault.trunc", "fault.trunc.hdr", "fault.insert",
			"reframe12.long_cbc_padding", "reframe12.empty_record", "reframe12.split", "reframe.empty_record", "reframe.empty_record_padded", "reframe.padding", "reframe.split", "reframe.key_update_injected", "reframe.key_update_requested", "reframe.coalesced_tickets", "reframe.ticket_flight_fragmented",
			"net.segments", "net.short_read", "net.write_blocked_on_window", "net.read_deadline_expired", "probe.faultfree_complete", "probe.receiver_error_after_fault", "probe.tls10_cbc_split_path"},
		NotInjected: "no storage or crash-restart exists in a TLS connection; faults before the end of the handshake belong to C32",
		Gen:         genC25, New: func() any { return &c25Scenario{} }, Exec: execC25, Shrink: shrinkC25,
		QuickRuns: 12000, ThoroughRuns: 1200000,
	})
}
