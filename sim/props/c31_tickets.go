package props

import (
	"bytes"
	"fmt"
	"testing"
	"time"

	"github.com/zmap/zcrypto/tls"
	"verifsim/kit"
	"verifsim/vsync"
)

// C31: histories of connections between one client (with a harness-owned
// session cache) and server A (optionally a foreign server B), interleaved with
// ticket-key rotations, clock advances and faults applied to the cached ticket.

type c31Event struct {
	Kind string `json:"kind"` // connect | rotate_keep | rotate_drop | advance | mutate | foreign | client_max | server_max
	// advance: hours to add to both clocks
	Hours int `json:"hours,omitempty"`
	// mutate
	Mut  string `json:"mut,omitempty"` // flip | trunc | extend | splice | empty
	Reg  string `json:"reg,omitempty"` // name | iv | body | mac
	Off  int    `json:"off,omitempty"`
	Bit  int    `json:"bit,omitempty"`
	Max  uint16 `json:"max,omitempty"`
}

type c31Scenario struct {
	Seed     uint64     `json:"seed"`
	Version  uint16     `json:"version"` // initial max version on both sides (1.2 or 1.3; 1.0/1.1 occasionally)
	KeyMode  string     `json:"key_mode"` // explicit | legacy | auto
	Key      string     `json:"key"`
	ClientAuth bool     `json:"client_auth,omitempty"`
	// AuthMode (when ClientAuth is false): 0 none, 1 RequestClientCert, 3 VerifyClientCertIfGiven; NoClientCert: the
	// client has no certificate to give (legal for these optional modes)
	AuthMode     int  `json:"auth_mode,omitempty"`
	NoClientCert bool `json:"no_client_cert,omitempty"`
	// Suite384: the TLS 1.3 client starts with TLS_AES_256_GCM_SHA384 as its only 1.3 suite (the session's KDF hash is
	// then SHA-384); the event client_suites later puts a SHA-256 suite first
	Suite384 bool `json:"suite384,omitempty"`
	// PerClient: connections are accepted by a listener Config with unrelated explicit ticket keys whose
	// GetConfigForClient returns server A's Config; the keys that count are A's (explicit/legacy key modes)
	PerClient bool      `json:"per_client,omitempty"`
	// Suite12: the TLS <= 1.2 client starts with one suite B only; the event client_suites later lists other suites ahead
	// of B (B still offered). A session made under B then resumes under B or not at all.
	Suite12 bool `json:"suite12,omitempty"`
	// Keyless: server A's Config has a GetConfigForClient that returns a Config without ticket keys of its own (1: the
	// same object every time, 2: a fresh one per connection); the documented rule is that A's keys then apply
	Keyless int `json:"keyless,omitempty"`
	Events   []c31Event `json:"events"`
	Net      NetCfg     `json:"net"`
	Tape     []int      `json:"tape,omitempty"`
}

func genC31(seed uint64, tier string) any {
	r := kit.NewRng(seed)
	sc := &c31Scenario{Seed: seed}
	sc.Version = []uint16{vTLS12, vTLS13, vTLS12, vTLS13, vTLS11, vTLS10}[r.Intn(6)]
	sc.KeyMode = []string{"explicit", "explicit", "legacy", "auto"}[r.Intn(4)]
	sc.Key = []string{"rsa", "p256", "ed"}[r.Intn(3)]
	if sc.Key == "ed" && sc.Version < vTLS12 {
		sc.Key = "p256"
	}
	sc.ClientAuth = r.Chance(1, 5)
	if !sc.ClientAuth && r.Chance(1, 4) {
		sc.AuthMode = []int{1, 3}[r.Intn(2)]
		sc.NoClientCert = r.Bool()
	}
	sc.Suite384 = sc.Version == vTLS13 && r.Chance(1, 4)
	sc.PerClient = sc.KeyMode != "auto" && r.Chance(1, 4)
	sc.Suite12 = sc.Version < vTLS13 && r.Chance(1, 4)
	if !sc.PerClient && r.Chance(1, 5) {
		sc.Keyless = 1 + r.Intn(2)
	}
	sc.Net = NetCfg{SegMode: r.Intn(2), MaxSeg: []int{0, 100, 1460}[r.Intn(3)], LatMinUs: 100, LatMaxUs: 2000}
	n := r.Range(3, 8)
	sc.Events = append(sc.Events, c31Event{Kind: "connect"})
	if sc.KeyMode == "auto" && r.Chance(1, 3) {
		// a week of roughly daily connections: keys are created and dropped along the way
		for d := 0; d < 9; d++ {
			sc.Events = append(sc.Events, c31Event{Kind: "advance", Hours: []int{20, 23, 24, 25, 30}[r.Intn(5)]})
			if d >= 5 && r.Chance(1, 2) {
				sc.Events = append(sc.Events, c31Event{Kind: "restore", Off: r.Intn(3)})
			}
			if r.Chance(1, 3) {
				// two application instances (separate session caches) connect at the same moment, here: when a key rotation
				// is due; right afterwards the second one comes back with the ticket it has just been given
				sc.Events = append(sc.Events, c31Event{Kind: "connect_pair"}, c31Event{Kind: "connect2"})
				continue
			}
			sc.Events = append(sc.Events, c31Event{Kind: "connect"})
		}
		return sc
	}
	conns := 1
	for conns < n {
		pskw := 0
		if sc.Version == vTLS13 {
			pskw = 3
		} else if sc.Suite12 {
			pskw = 2
		}
		switch r.Pick([]int{0, 2, 2, 3, 6, 2, 1, 1, 2, 1, pskw}) {
		case 10:
			if sc.Suite384 && r.Chance(1, 3) || sc.Suite12 {
				sc.Events = append(sc.Events, c31Event{Kind: "client_suites"})
				break
			}
			sc.Events = append(sc.Events, c31Event{Kind: "psk_probe", Off: r.Intn(1 << 16), Bit: r.Intn(8)})
		case 9:
			if sc.KeyMode != "auto" {
				sc.Events = append(sc.Events, c31Event{Kind: "clone"})
			}
		case 8:
			sc.Events = append(sc.Events, c31Event{Kind: "restore", Off: r.Intn(8)})
		case 1:
			if sc.KeyMode == "explicit" || sc.KeyMode == "legacy" {
				sc.Events = append(sc.Events, c31Event{Kind: "rotate_keep"})
			}
		case 2:
			if sc.KeyMode == "explicit" || sc.KeyMode == "legacy" {
				sc.Events = append(sc.Events, c31Event{Kind: "rotate_drop"})
			}
		case 3:
			sc.Events = append(sc.Events, c31Event{Kind: "advance", Hours: []int{1, 5, 23, 25, 47, 100, 167, 169, 192, 200}[r.Intn(10)]})
		case 4:
			sc.Events = append(sc.Events, c31Event{Kind: "mutate", Mut: []string{"flip", "flip", "flip", "trunc", "extend", "splice", "empty"}[r.Intn(7)],
				Reg: []string{"name", "iv", "body", "mac"}[r.Intn(4)], Off: r.Intn(1 << 16), Bit: r.Intn(8)})
		case 5:
			sc.Events = append(sc.Events, c31Event{Kind: "foreign"})
		case 6:
			sc.Events = append(sc.Events, c31Event{Kind: "client_max", Max: []uint16{vTLS12, vTLS13, vTLS11, vTLS10}[r.Intn(4)]})
		case 7:
			sc.Events = append(sc.Events, c31Event{Kind: "server_max", Max: []uint16{vTLS12, vTLS13, vTLS11, vTLS10}[r.Intn(4)]})
		}
		if r.Chance(3, 5) {
			sc.Events = append(sc.Events, c31Event{Kind: "connect"})
			conns++
		}
	}
	for _, ev := range sc.Events {
		if ev.Max != 0 && ev.Max < vTLS12 && sc.Key == "ed" {
			sc.Key = "p256" // Ed25519 certificates cannot be used below TLS 1.2
		}
	}
	if sc.Events[len(sc.Events)-1].Kind != "connect" {
		sc.Events = append(sc.Events, c31Event{Kind: "connect"})
	}
	return sc
}

// simCache is the harness-owned ClientSessionCache: it records every session
// the client stores and lets the scenario replace the stored ticket.
type simCache struct {
	cur  map[string]*tls.ClientSessionState
	puts []*tls.ClientSessionState
}

func (c *simCache) Get(k string) (*tls.ClientSessionState, bool) {
	s, ok := c.cur[k]
	return s, ok
}
func (c *simCache) Put(k string, s *tls.ClientSessionState) {
	if s == nil {
		delete(c.cur, k)
		return
	}
	c.cur[k] = s
	c.puts = append(c.puts, s)
}

type issuedTicket struct {
	Bytes    []byte
	At       time.Time // server clock when issued
	Created  time.Time // creation time the server stamps into the ticket: issue time, or (TLS <= 1.2 re-wrap on resumption) that of the ticket it replaces
	KeyEpoch int       // explicit/legacy: index of the key that was first in A's list
	AutoKey  time.Time // auto mode: creation time of the automatically managed key that sealed the ticket
	Vers     uint16
	Suite    uint16
	ByA      bool
}

// presentedTickets extracts the ticket(s) a ClientHello presents: the
// session_ticket extension (TLS <= 1.2) and the pre_shared_key identities.
func presentedTickets(ch *wireClientHello) (legacy []byte, psk [][]byte) {
	if d, ok := ch.ext(35); ok {
		legacy = d
	}
	if d, ok := ch.ext(41); ok {
		r := &reader{b: d}
		ids := &reader{b: r.vec16()}
		for len(ids.b) > 0 && !ids.err {
			id := ids.vec16()
			ids.n(4)
			if !ids.err {
				psk = append(psk, id)
			}
		}
	}
	return
}

func execC31(t *testing.T, scAny any, keepLog bool) *Outcome {
	sc := scAny.(*c31Scenario)
	o := &Outcome{Counters: map[string]int{}}
	kit.Bubble(t, func() {
		run := newSimRun(sc.Seed, sc.Tape, keepLog)
		for _, ev := range sc.Events {
			if ev.Kind == "connect_pair" {
				// concurrent handshakes on one server Config: package tls is built with the lock shim, so that the
				// scheduler decides the interleaving at every lock operation (ticket-key rotation takes Config's
				// RWMutex twice), not only at transport calls
				vsync.Sched = simSched{run.S}
				vsync.Mode = vsync.ModeLockstep
				defer func() { vsync.Mode = vsync.ModeReal; vsync.Sched = nil }()
				break
			}
		}
		s := run.S
		var offset time.Duration
		clock := func() time.Time { return s.Now().Add(offset) }
		ecfg := EndCfg{MaxVersion: sc.Version, KeyKind: sc.Key}
		mk := func(label string) *tls.Config {
			c := serverConfig(ecfg, s, run.R.Derive(label))
			c.Time = clock
			if sc.ClientAuth {
				c.ClientAuth = tls.RequireAndVerifyClientCert
			} else if sc.AuthMode != 0 {
				c.ClientAuth = tls.ClientAuthType(sc.AuthMode)
			}
			return c
		}
		srvA, srvB := mk("srvA"), mk("srvB")
		keyRng := run.R.Derive("ticket-keys")
		newKey := func() (k [32]byte) { keyRng.Fill(k[:]); return }
		var keysA [][32]byte // explicit mode: current key list of A (first encrypts)
		epoch := 0           // bumps whenever A's first key changes
		validEpochs := map[int]bool{0: true}
		switch sc.KeyMode {
		case "explicit":
			keysA = [][32]byte{newKey()}
			srvA.SetSessionTicketKeys(keysA)
			if sc.Seed%2 == 0 {
				// the foreign server is a re-keyed clone of A (two virtual hosts derived from one base config)
				srvB = srvA.Clone()
				srvB.Rand = kit.NewReader(run.R.Derive("srvB-clone"))
			}
			srvB.SetSessionTicketKeys([][32]byte{newKey()})
		case "legacy":
			// the server starts from the legacy single-key field; a later SetSessionTicketKeys replaces it (the
			// old key stays valid only if the new list names it)
			srvA.SessionTicketKey = newKey()
			keysA = [][32]byte{srvA.SessionTicketKey}
			srvB.SessionTicketKey = newKey()
		}
		// what tls.Server is given for connections to A: A's Config itself, or a listener Config that hands A's
		// Config out per client. The listener's own ticket keys are the foreign server's keys, so a ticket of
		// the foreign server is exactly what a mix-up of the two key sets would accept.
		acceptCfg := func() *tls.Config { return srvA }
		if sc.PerClient {
			listener := mk("listener")
			switch sc.KeyMode {
			case "explicit":
				listener = srvB.Clone()
			case "legacy":
				listener.SessionTicketKey = srvB.SessionTicketKey
			}
			listener.GetConfigForClient = func(*tls.ClientHelloInfo) (*tls.Config, error) { return srvA, nil }
			acceptCfg = func() *tls.Config { listener.MaxVersion = srvA.MaxVersion; return listener }
			o.count("probe.per_client_config", 1)
		}
		if sc.Keyless != 0 {
			pc, n := mk("perclient"), 0
			getter := func(*tls.ClientHelloInfo) (*tls.Config, error) {
				c := pc
				if sc.Keyless == 2 {
					n++
					c = mk(fmt.Sprintf("perclient%d", n))
				}
				c.MaxVersion = srvA.MaxVersion
				return c, nil
			}
			acceptCfg = func() *tls.Config { srvA.GetConfigForClient = getter; return srvA }
			o.count("probe.per_client_config_keyless", 1)
		}
		cache := &simCache{cur: map[string]*tls.ClientSessionState{}}
		ccfg := clientConfig(EndCfg{MaxVersion: sc.Version, Cache: true}, s, run.R.Derive("cli-rand"))
		ccfg.Time = clock
		ccfg.ClientSessionCache = cache
		if sc.ClientAuth || sc.AuthMode != 0 && !sc.NoClientCert {
			c := tlsCert(pki().Client["p256"], true, clientKeyOfKind["p256"])
			ccfg.Certificates = []tls.Certificate{c}
		}
		if sc.Suite384 {
			ccfg.CipherSuites = []uint16{0x1302, 0xc02f, 0xc02b, 0xc030, 0xc02c, 0xc013, 0xc009, 0xc014, 0xc00a, 0x002f, 0x0035}
		}
		// Suite12: B is the plainest suite the server's key allows; the later list puts stronger ones first
		suite12After := []uint16{0x1301, 0xc02f, 0xc013, 0x002f}
		if sc.Key != "rsa" {
			suite12After = []uint16{0x1301, 0xc02b, 0xc00a, 0xc009}
		}
		if sc.Suite12 {
			ccfg.CipherSuites = []uint16{0x1301, suite12After[3]}
		}
		// a second instance of the client application: same configuration, its own session cache and entropy
		cache2 := &simCache{cur: map[string]*tls.ClientSessionState{}}
		ccfg2 := ccfg.Clone()
		ccfg2.ClientSessionCache = cache2
		ccfg2.Rand = kit.NewReader(run.R.Derive("cli2-rand"))
		swapped, tampered2, prevExp2 := false, false, false
		var issued []issuedTicket
		// Model of the documented automatic key management ("rotated every day and dropped after seven
		// days"): on every server handshake a new key is created when the newest is a day old, and keys that
		// are seven days old are dropped at that moment. Creation times, newest first.
		var autoKeys []time.Time
		record := func(from int, byA bool, created time.Time) {
			for _, st := range cache.puts[from:] {
				v, su := tls.VerifSessionParams(st)
				it := issuedTicket{Bytes: tls.VerifSessionTicket(st), At: clock(), Created: created, KeyEpoch: epoch, Vers: v, Suite: su, ByA: byA}
				if len(autoKeys) > 0 {
					it.AutoKey = autoKeys[0]
				}
				issued = append(issued, it)
			}
		}
		find := func(tk []byte) *issuedTicket {
			for i := range issued {
				if bytes.Equal(issued[i].Bytes, tk) {
					return &issued[i]
				}
			}
			return nil
		}
		suitesChanged := false // the client re-ordered its suites: a session from before may legitimately no longer resume
		var suitesChangedAt time.Time
		tampered := false // the cached ticket was altered / replaced since the last Put
		connIdx := 0
		var prev *connOutcome
		prevPresentedExpired := false // the previous connection presented an authentic ticket older than seven days
		for ei, ev := range sc.Events {
			if swapped {
				// back to the first client
				cache, cache2, ccfg, ccfg2 = cache2, cache, ccfg2, ccfg
				tampered, tampered2, prevPresentedExpired, prevExp2 = tampered2, tampered, prevExp2, prevPresentedExpired
				swapped = false
			}
			if o.Fail != nil {
				break
			}
			if ev.Kind == "connect2" {
				// the same steps and the same expectations as for "connect", seen from the second client
				cache, cache2, ccfg, ccfg2 = cache2, cache, ccfg2, ccfg
				tampered, tampered2, prevPresentedExpired, prevExp2 = tampered2, tampered, prevExp2, prevPresentedExpired
				swapped, prev = true, nil
				ev.Kind = "connect"
				o.count("probe.second_client_returns", 1)
			}
			switch ev.Kind {
			case "connect_pair":
				if sc.KeyMode == "auto" {
					now := clock()
					if len(autoKeys) == 0 || now.Sub(autoKeys[0]) >= 24*time.Hour {
						keep := []time.Time{now}
						for _, k := range autoKeys {
							if now.Sub(k) < 7*24*time.Hour {
								keep = append(keep, k)
							}
						}
						autoKeys = keep
						o.count("probe.auto_key_rotations", 1)
						o.count("probe.concurrent_handshakes_at_key_rotation", 1)
					}
				}
				putsA, putsB := len(cache.puts), len(cache2.puts)
				// what each client is about to present (bookkeeping as in "connect": a TLS <= 1.2 resumption re-wraps the
				// ticket under its original creation time; a ticket older than seven days counts as presented-expired)
				offeredOf := func(c *simCache) *issuedTicket {
					if cur := c.cur[serverName]; cur != nil {
						return find(tls.VerifSessionTicket(cur))
					}
					return nil
				}
				pitA, pitB := offeredOf(cache), offeredOf(cache2)
				after := func(co *connOutcome, pit *issuedTicket) (created time.Time, presentedExpired bool) {
					created = clock()
					if co.CErr == nil && co.CState.DidResume && co.CState.Version != vTLS13 && pit != nil {
						created = pit.Created
					}
					return created, pit != nil && pit.ByA && clock().Sub(pit.Created) > 7*24*time.Hour
				}
				coA := startConn(run, fmt.Sprintf("c%da", connIdx), ccfg, acceptCfg(), sc.Net, nil)
				coB := startConn(run, fmt.Sprintf("c%db", connIdx), ccfg2, acceptCfg(), sc.Net, nil)
				s.Run()
				connIdx++
				o.count("probe.concurrent_connection_pairs", 1)
				if tampered {
					// (the first client's cached ticket had been altered: what its connection does is judged by "connect" only)
					tampered = false
					delete(cache.cur, serverName)
				} else if coA.CErr != nil || coA.SErr != nil || coB.CErr != nil || coB.SErr != nil {
					o.Fail = Failf("c31.failed", "handshake failed instead of falling back to a full handshake", "concurrent connections %d (event %d): first client %v / %v, second client %v / %v", connIdx, ei, coA.CErr, coA.SErr, coB.CErr, coB.SErr)
					break
				}
				var createdA, createdB time.Time
				createdA, prevPresentedExpired = after(coA, pitA)
				createdB, prevExp2 = after(coB, pitB)
				record(putsA, true, createdA)
				cache, cache2 = cache2, cache
				record(putsB, true, createdB)
				cache, cache2 = cache2, cache
				prev = nil
			case "rotate_keep", "rotate_drop":
				if sc.KeyMode != "explicit" && sc.KeyMode != "legacy" {
					continue
				}
				nk := newKey()
				if ev.Kind == "rotate_keep" {
					keysA = append([][32]byte{nk}, keysA...)
					if len(keysA) > 3 {
						keysA = keysA[:3]
					}
					// epochs older than the ones still listed fall out
					for e := range validEpochs {
						if e <= epoch-2 {
							delete(validEpochs, e)
						}
					}
				} else {
					keysA = [][32]byte{nk}
					validEpochs = map[int]bool{}
				}
				epoch++
				validEpochs[epoch] = true
				srvA.SetSessionTicketKeys(keysA)
				o.count("fault."+ev.Kind, 1)
			case "advance":
				offset += time.Duration(ev.Hours) * time.Hour
				o.count("fault.clock_advance", 1)
				if ev.Hours >= 168 {
					o.count("fault.clock_advance_beyond_lifetime", 1)
				}
			case "client_suites":
				// the client changes its preference: a SHA-256 suite first, the session's SHA-384 suite still offered
				if sc.Suite384 {
					ccfg.CipherSuites = []uint16{0x1301, 0x1302, 0xc02f, 0xc02b, 0xc030, 0xc02c, 0xc013, 0xc009, 0xc014, 0xc00a, 0x002f, 0x0035}
					suitesChangedAt, suitesChanged = clock(), true
					o.count("fault.client_suite_preference_changed", 1)
				}
				if sc.Suite12 {
					ccfg.CipherSuites = suite12After
					suitesChangedAt, suitesChanged = clock(), true
					o.count("fault.client_suite_preference_changed_tls12", 1)
				}
			case "client_max":
				ccfg.MaxVersion = ev.Max
				o.count("fault.version_change", 1)
			case "server_max":
				srvA.MaxVersion = ev.Max
				o.count("fault.version_change", 1)
			case "clone":
				// From now on the server serves from a Clone of its configuration (as GetConfigForClient users do);
				// a clone has the same ticket keys, so nothing changes for the model. The original object is then
				// re-keyed with unrelated keys, which must not reach the clone.
				if sc.KeyMode == "auto" {
					continue
				}
				old := srvA
				srvA = old.Clone()
				old.SetSessionTicketKeys([][32]byte{newKey()})
				if ev.Off%2 == 0 {
					old.SetSessionTicketKeys([][32]byte{newKey(), newKey()})
				}
				o.count("fault.config_cloned_original_rekeyed", 1)
			case "restore":
				// the client falls back to a session it stored earlier (authentic, but possibly old)
				var mine []*tls.ClientSessionState
				for _, st := range cache.puts {
					if it := find(tls.VerifSessionTicket(st)); it != nil && it.ByA {
						mine = append(mine, st)
					}
				}
				if len(mine) < 2 {
					continue
				}
				cache.cur[serverName] = mine[ev.Off%(len(mine)-1)]
				o.count("fault.old_session_restored", 1)
			case "foreign":
				// obtain a ticket from server B with a throw-away cache, then plant it into the client's session for A
				cur, ok := cache.cur[serverName]
				if !ok {
					continue
				}
				tmp := &simCache{cur: map[string]*tls.ClientSessionState{}}
				fc := ccfg.Clone()
				fc.ClientSessionCache = tmp
				fc.Rand = kit.NewReader(run.R.Derive(fmt.Sprintf("foreign-%d", ei)))
				co := startConn(run, fmt.Sprintf("f%d", ei), fc, srvB, sc.Net, nil)
				s.Run()
				if co.CErr != nil || len(tmp.puts) == 0 {
					continue
				}
				ft := tls.VerifSessionTicket(tmp.puts[len(tmp.puts)-1])
				issued = append(issued, issuedTicket{Bytes: ft, At: clock(), Created: clock(), ByA: false})
				cache.cur[serverName] = tls.VerifSessionWithTicket(cur, ft)
				tampered = true
				o.count("fault.ticket_foreign", 1)
			case "psk_probe":
				// A client offering two PSK identities: an unusable one first, then the cached authentic ticket
				// (see c31_pskprobe.go). Only the server's choice in its ServerHello is judged.
				cur, ok := cache.cur[serverName]
				if !ok || tampered {
					continue
				}
				v, suite := tls.VerifSessionParams(cur)
				tk := tls.VerifSessionTicket(cur)
				it := find(tk)
				if v != vTLS13 || it == nil || len(tk) == 0 {
					continue
				}
				var extra []byte
				kindName := "random"
				switch ev.Off % 4 {
				case 1:
					extra = append([]byte(nil), tk...)
					extra[len(extra)-1-ev.Off%len(extra)] ^= 1 << uint(ev.Bit)
					kindName = "altered"
				case 2:
					for i := range issued {
						if issued[i].ByA && (sc.KeyMode == "explicit" || sc.KeyMode == "legacy") && !validEpochs[issued[i].KeyEpoch] && !bytes.Equal(issued[i].Bytes, tk) {
							extra, kindName = issued[i].Bytes, "rotated_out"
						}
					}
				case 3:
					for i := range issued {
						if !issued[i].ByA {
							extra, kindName = issued[i].Bytes, "foreign"
						}
					}
				}
				if extra == nil {
					extra = kit.NewRng(uint64(ev.Off)).Bytes(60 + ev.Off%120)
				}
				if fe := find(extra); fe != nil && fe.ByA && (sc.KeyMode == "auto" || validEpochs[fe.KeyEpoch]) {
					continue // by chance an identity the server may accept: nothing to assert
				}
				secret, nonce := tls.VerifSessionSecret(cur)
				rw := &pskRewriter{Suite: suite, Secret: secret, Nonce: nonce, Extra: extra}
				savedCur, savedPuts := cache.cur[serverName], len(cache.puts)
				co := startConn(run, fmt.Sprintf("p%d", ei), ccfg, acceptCfg(), sc.Net, rw)
				s.Run()
				cache.cur[serverName] = savedCur
				cache.puts = cache.puts[:savedPuts]
				if !rw.Fired {
					o.count("probe.psk_probe_not_applicable", 1)
					continue
				}
				o.count("fault.second_psk_identity_"+kindName, 1)
				sh, err := firstServerHelloOrRetry(co.SNet.SentStream())
				if err != nil || sh == nil {
					o.count("probe.psk_probe_no_serverhello", 1)
					continue
				}
				if bytes.Equal(sh.Random, helloRetryRandom) {
					o.count("probe.psk_probe_hello_retry", 1)
					continue
				}
				sel := -1
				if d, ok := sh.ext(41); ok && len(d) == 2 {
					sel = int(d[0])<<8 | int(d[1])
				}
				mustResume := !(suitesChanged && !it.At.After(suitesChangedAt)) && it.ByA && it.KeyEpoch == epoch && clock().Sub(it.At) < time.Hour && it.Vers == vTLS13 &&
					ccfg.MaxVersion == sc.Version && srvA.MaxVersion == sc.Version
				switch {
				case sel == 0:
					o.Fail = Failf("c31.safety", "server selected a PSK identity it cannot have authenticated ("+kindName+" identity listed first)", "event %d: selected_identity 0 of 2", ei)
				case sel > 1:
					o.Fail = Failf("c31.safety", "server selected a PSK identity that was not offered", "event %d: selected_identity %d of 2", ei, sel)
				case sel == -1 && mustResume:
					o.Fail = Failf("c31.progress_multi", "an authentic fresh ticket under the current key, listed after an unusable PSK identity, was not selected", "event %d: first identity %s (%d bytes), ServerHello without pre_shared_key; key mode %s", ei, kindName, len(extra), sc.KeyMode)
				case sel == 1:
					o.count("probe.second_psk_identity_selected", 1)
				}
			case "mutate":
				cur, ok := cache.cur[serverName]
				if !ok {
					continue
				}
				tk := tls.VerifSessionTicket(cur)
				if len(tk) == 0 {
					continue
				}
				nt := mutateTicket(tk, ev, issued)
				if v, _ := tls.VerifSessionParams(cur); v == vTLS13 && len(nt) == 0 {
					// a TLS 1.3 PSK identity is opaque<1..2^16-1>: an empty one is a malformed ClientHello, not a ticket
					continue
				}
				if bytes.Equal(nt, tk) {
					continue
				}
				cache.cur[serverName] = tls.VerifSessionWithTicket(cur, nt)
				tampered = true
				o.count("fault.ticket_"+ev.Mut, 1)
				if ev.Mut == "flip" {
					o.count("fault.ticket_flip_"+ev.Reg, 1)
				}
			case "connect":
				if sc.KeyMode == "auto" {
					now := clock()
					if len(autoKeys) == 0 || now.Sub(autoKeys[0]) >= 24*time.Hour {
						keep := []time.Time{now}
						for _, k := range autoKeys {
							if now.Sub(k) < 7*24*time.Hour {
								keep = append(keep, k)
							}
						}
						autoKeys = keep
						o.count("probe.auto_key_rotations", 1)
					}
				}
				putsBefore := len(cache.puts)
				curBefore := cache.cur[serverName]
				var offered []byte
				if curBefore != nil {
					offered = tls.VerifSessionTicket(curBefore)
				}
				co := startConn(run, fmt.Sprintf("c%d", connIdx), ccfg, acceptCfg(), sc.Net, nil)
				s.Run()
				connIdx++
				if (co.CErr != nil || co.SErr != nil) && tampered && find(offered) != nil && find(offered).ByA {
					// the "altered" ticket happens to be byte-identical to another authentic ticket of this server,
					// planted into a session with different secrets: the server accepts the ticket and the
					// binder / Finished check must then abort the handshake. Nothing to assert.
					o.count("probe.authentic_ticket_with_foreign_secrets", 1)
					tampered = false
					delete(cache.cur, serverName)
					prev = nil
					continue
				}
				if co.CErr != nil || co.SErr != nil {
					o.Fail = Failf("c31.failed", "handshake failed instead of falling back to a full handshake", "connection %d (event %d, tampered=%v): client %v server %v", connIdx, ei, tampered, co.CErr, co.SErr)
					break
				}
				cs, ss := co.CState, co.SState
				if cs.DidResume != ss.DidResume {
					o.Fail = Failf("c31.agree", "endpoints disagree on resumption", "connection %d: client %v server %v", connIdx, cs.DidResume, ss.DidResume)
					break
				}
				ch, err := firstClientHello(co.CNet.SentStream())
				if err != nil {
					o.Fail = Failf("c31.wire", "no ClientHello captured", "%v", err)
					break
				}
				legacy, psk := presentedTickets(ch)
				if cs.DidResume {
					o.count("probe.resumed", 1)
					var presented []byte
					if cs.Version == vTLS13 {
						if len(psk) > 0 {
							presented = psk[0]
						}
					} else {
						presented = legacy
					}
					it := find(presented)
					switch {
					case len(presented) == 0:
						o.Fail = Failf("c31.safety", "resumption without a presented ticket", "connection %d version %04x", connIdx, cs.Version)
					case it == nil:
						o.Fail = Failf("c31.safety", "resumed from a ticket this server never issued (altered ticket accepted)", "connection %d: presented %d-byte ticket, tampered=%v", connIdx, len(presented), tampered)
					case !it.ByA:
						o.Fail = Failf("c31.safety", "resumed from a ticket issued by a foreign server", "connection %d", connIdx)
					case sc.KeyMode == "auto" && !timeIn(it.AutoKey, autoKeys):
						o.Fail = Failf("c31.safety", "resumed from a ticket sealed under an automatically rotated key that should have been dropped after seven days", "connection %d: key created %v ago, ticket issued %v ago", connIdx, clock().Sub(it.AutoKey), clock().Sub(it.At))
					case (sc.KeyMode == "explicit" || sc.KeyMode == "legacy") && !validEpochs[it.KeyEpoch]:
						o.Fail = Failf("c31.safety", "resumed from a ticket sealed under a rotated-out key", "connection %d: ticket key epoch %d, current epochs %v", connIdx, it.KeyEpoch, validEpochs)
					case clock().Sub(it.At) > 7*24*time.Hour+time.Minute:
						o.Fail = Failf("c31.lifetime", "resumed from a ticket older than the documented seven-day lifetime", "connection %d: ticket age %v", connIdx, clock().Sub(it.At))
					case it.Vers != cs.Version || (cs.Version != vTLS13 && it.Suite != cs.CipherSuite):
						o.Fail = Failf("c31.params", "resumed session changed version or cipher suite", "ticket %04x/%04x connection %04x/%04x", it.Vers, it.Suite, cs.Version, cs.CipherSuite)
					}
					if o.Fail == nil && prev != nil && co.CEKMErr[0] == nil && prev.CEKMErr[0] == nil && bytes.Equal(co.CEKM[0], prev.CEKM[0]) {
						o.Fail = Failf("c31.secrets", "resumed connection exports the same keying material as the previous one", "")
					}
				} else {
					o.count("probe.full_handshake", 1)
					// progress: an unaltered ticket issued under the current first key, fresh, same offer, must resume
					it := find(offered)
					if it != nil && !tampered && !(suitesChanged && !it.At.After(suitesChangedAt)) && it.ByA && it.KeyEpoch == epoch && clock().Sub(it.At) < time.Hour &&
						it.Vers == cs.Version && ccfg.MaxVersion == sc.Version && srvA.MaxVersion == sc.Version {
						sig := "authentic fresh ticket under the current key did not resume"
						if prevPresentedExpired && cs.Version != vTLS13 {
							sig = "TLS<=1.2 ticket issued by the full handshake that followed an expired ticket inherits the expired creation time and never resumes"
						}
						o.Fail = Failf("c31.progress", sig, "connection %d version %04x key mode %s ticket age %v", connIdx, cs.Version, sc.KeyMode, clock().Sub(it.At))
					}
				}
				if tampered && o.Fail == nil {
					o.count("probe.tampered_ticket_presented", 1)
				}
				created := clock()
				if cs.DidResume && cs.Version != vTLS13 {
					// a ticket re-issued on a TLS <= 1.2 resumption keeps the original session's creation time
					if pit := find(offered); pit != nil {
						created = pit.Created
					}
				}
				record(putsBefore, true, created)
				if len(cache.puts) > putsBefore {
					tampered = false
				}
				prev = co
				prevPresentedExpired = false
				if pit := find(offered); pit != nil && pit.ByA && clock().Sub(pit.Created) > 7*24*time.Hour {
					prevPresentedExpired = true
					o.count("probe.expired_ticket_presented", 1)
				}
			}
		}
		for _, p := range s.Panics() {
			o.Fail = Failf("c31.panic", panicSite(p.Stack), "task %s panicked: %v\n%s", p.Name, p.PanicVal, p.Stack)
		}
		if o.Fail == nil && (len(s.Deadlock) > 0 || s.StepCapHit) {
			o.Fail = Failf("c31.stuck", "tasks did not finish", "deadlock=%v", s.Deadlock)
		}
		finishOutcome(o, s)
		h := kit.NewHash64()
		h.WriteString(fmt.Sprintf("%+v", *sc))
		o.Distinct = h.Sum()
		o.Nontrivial = connIdx >= 2
	})
	return o
}

func timeIn(t time.Time, l []time.Time) bool {
	for _, x := range l {
		if x.Equal(t) {
			return true
		}
	}
	return false
}

func mutateTicket(tk []byte, ev c31Event, issued []issuedTicket) []byte {
	n := len(tk)
	out := append([]byte(nil), tk...)
	switch ev.Mut {
	case "flip":
		pos := 0
		switch ev.Reg {
		case "name":
			pos = ev.Off % min(16, n)
		case "iv":
			pos = 16 + ev.Off%16
		case "mac":
			pos = n - 1 - ev.Off%32
		default:
			if n > 64 {
				pos = 32 + ev.Off%(n-64)
			} else {
				pos = ev.Off % n
			}
		}
		if pos < 0 || pos >= n {
			pos = ev.Off % n
		}
		out[pos] ^= 1 << uint(ev.Bit)
	case "trunc":
		// remaining length: a little shorter, without the MAC, and every boundary of the fixed-size fields
		// (16-byte key name, 16-byte IV, 32-byte MAC)
		keep := []int{n - 1, n - 32, 47, 1, 15, 16, 17, 31, 32, 33, 48, 49, 55, 63, 64, 65, 79, 80}[ev.Off%18]
		if keep <= 0 || keep >= n {
			keep = n - 1
		}
		out = out[:keep]
	case "extend":
		out = append(out, byte(ev.Off), byte(ev.Bit))
	case "splice":
		var other []byte
		for i := len(issued) - 1; i >= 0; i-- {
			if !bytes.Equal(issued[i].Bytes, tk) && len(issued[i].Bytes) > 0 {
				other = issued[i].Bytes
				break
			}
		}
		if other == nil {
			out[n/2] ^= 0x80
			break
		}
		h := n / 2
		if h > len(other) {
			h = len(other)
		}
		out = append(append([]byte(nil), tk[:n/2]...), other[h:]...)
	case "empty":
		out = out[:0]
	}
	return out
}

func shrinkC31(scAny any) []any {
	sc := scAny.(*c31Scenario)
	var out []any
	for i := len(sc.Events) - 1; i >= 1; i-- {
		c := *sc
		c.Events = dropIndex(sc.Events, i)
		out = append(out, &c)
	}
	if sc.ClientAuth {
		c := *sc
		c.ClientAuth = false
		out = append(out, &c)
	}
	if sc.Net.SegMode != 0 || sc.Net.LatMaxUs != 0 {
		c := *sc
		c.Net = NetCfg{}
		out = append(out, &c)
	}
	return out
}

func init() {
	register(&Prop{
		ID: "C31", Level: "fault_enumeration", Engine: "A (lockstep scheduler, simnet, synctest bubble; sequential connections sharing client cache and server config)",
		Rule: "seeded histories of 3-8 connections interleaved with key rotations, clock advances (1 h .. 200 h), ticket mutations (bit flips per region, truncation, extension, splice, empty), foreign tickets and version changes; non-trivial = at least two connections ran; distinct = hash of the scenario",
		Real:   []string{"ticket sealing/opening", "TLS 1.2 and 1.3 resumption decision", "SetSessionTicketKeys / legacy key / automatic rotation", "client session handling", "NewSessionTicket processing"},
		Stub:   []string{"client session cache (harness-owned, via the public ClientSessionCache interface)", "transport", "clock", "entropy"},
		Assume: []string{"a resumed connection must present a ticket byte-identical to one issued by this server", "progress is only asserted for unaltered tickets younger than one hour under the current first key with an unchanged offer"},
		FaultKinds: []string{"fault.ticket_flip", "fault.ticket_flip_name", "fault.ticket_flip_iv", "fault.ticket_flip_body", "fault.ticket_flip_mac", "fault.ticket_trunc", "fault.ticket_extend", "fault.ticket_splice", "fault.ticket_empty",
			"fault.ticket_foreign", "fault.old_session_restored", "fault.config_cloned_original_rekeyed", "fault.rotate_keep", "fault.rotate_drop", "fault.clock_advance", "fault.clock_advance_beyond_lifetime", "fault.version_change", "probe.resumed", "probe.full_handshake", "probe.tampered_ticket_presented"},
		NotInjected: "wire-level corruption of the ticket is C25/C32 territory (it breaks the Finished check); no storage",
		Gen:         genC31, New: func() any { return &c31Scenario{} }, Exec: execC31, Shrink: shrinkC31,
		QuickRuns: 4000, ThoroughRuns: 300000,
	})
}
