package props

import (
	"context"
	"encoding/json"
	"fmt"
	"sync"
	"sync/atomic"
	"testing"
	"time"

	"github.com/zmap/zcrypto/tls"
	"verifsim/kit"
	"verifsim/vsync"
)

// Engine B of C34: the programs of c34_concurrent.go run as free-running
// goroutines inside a synctest bubble, with the channel-based lock shim (a real
// sync.Mutex held across a transport read would stall the bubble clock), the
// bnet transport and the race detector. Pacing comes from seeded simulated
// delays keyed by (task, operation); nothing is keyed on arrival order.

type c34bTaskLog struct {
	writes []c34WriteRec
}

func execC34B(t *testing.T, sc *c34Scenario, keepLog bool) *Outcome {
	o := &Outcome{Counters: map[string]int{}, FreeRunning: true}
	if !kit.RaceEnabledLog() {
		// without the race detector's log there is nothing for engine B to decide
		o.count("probe.raceB_skipped_no_race_log", 1)
	}
	finished := false
	var recvs [2][]byte
	logs := make([]*c34bTaskLog, len(sc.Tasks))
	torn := make([]string, len(sc.Tasks))
	var hsErrs [2]error
	var hsNilButTornDown bool
	var harnessClosed0 atomic.Bool // a harness task has closed (or is about to close) the client side itself
	var simElapsed time.Duration
	leak := kit.Bubble(t, func() {
		t0 := time.Now()
		vsync.Mode = vsync.ModeChan
		defer func() { vsync.Mode = vsync.ModeReal }()
		r := kit.NewRng(sc.Seed)
		ecfg := EndCfg{MinVersion: sc.Version, MaxVersion: sc.Version, Suites: []uint16{sc.Suite}, ForceSuites: true, KeyKind: sc.Key, NoTickets: sc.Seed%3 == 0}
		now := func() time.Time { return time.Now() }
		p := pki()
		kind := sc.Key
		scfg := &tls.Config{Certificates: []tls.Certificate{tlsCert(p.Server[kind], true, keyOfKind[kind])}, MinVersion: sc.Version, MaxVersion: sc.Version, CipherSuites: ecfg.Suites,
			SessionTicketsDisabled: ecfg.NoTickets, Time: now}
		ccfg := &tls.Config{RootCAs: p.RootPool, ServerName: serverName, MinVersion: sc.Version, MaxVersion: sc.Version, CipherSuites: ecfg.Suites, ForceSuites: true, Time: now, Renegotiation: tls.RenegotiationSupport(sc.Renego)}
		_ = r
		ca, cb := kit.BPipe(sc.Net.Window)
		lat := []time.Duration{0, 150 * time.Microsecond, 1500 * time.Microsecond}[sc.Seed%3]
		ca.Latency, cb.Latency = lat, lat+time.Nanosecond
		hsCtx, hsCancel := context.WithCancel(context.Background())
		hooked := &ioHookConn{BConn: ca, at: int32(sc.CancelAtIO), hook: hsCancel}
		conns := [2]*tls.Conn{tls.Client(hooked, ccfg), tls.Server(cb, scfg)}
		var wg sync.WaitGroup
		base := 20 * time.Second
		for side := 0; side < 2; side++ {
			side := side
			c := conns[side]
			wg.Add(1)
			go func() {
				defer wg.Done()
				c.SetDeadline(time.Now().Add(base))
				if (sc.CancelMs > 0 || sc.CancelAtIO > 0) && side == 0 {
					ctx, cancel := hsCtx, hsCancel
					if sc.CancelMs > 0 {
						time.AfterFunc(time.Duration(sc.CancelMs)*time.Millisecond, cancel)
					}
					hsErrs[side] = c.HandshakeContext(ctx)
					// success promises a usable connection: the library must not have closed the transport itself
					hsNilButTornDown = hsErrs[side] == nil && hooked.closed.Load() && !harnessClosed0.Load()
					cancel()
				}
				buf := make([]byte, sc.ReadBuf)
				for {
					n, err := c.Read(buf)
					recvs[side] = append(recvs[side], buf[:n]...)
					if err != nil {
						break
					}
				}
				c.Close()
			}()
		}
		wid := 0
		for ti, tk := range sc.Tasks {
			ti, tk := ti, tk
			c := conns[tk.Side]
			myWriter := wid
			if tk.Kind == "writer" {
				wid++
			}
			lg := &c34bTaskLog{}
			logs[ti] = lg
			wg.Add(1)
			go func() {
				defer wg.Done()
				seq := 0
				for oi, op := range tk.Ops {
					// pacing: unique simulated delay per (task, op)
					// (half of the operations start without any delay: true parallelism with whatever is running)
					if pr := kit.NewRng(sc.Seed ^ uint64(ti*977+oi*13+5)); pr.Bool() {
						time.Sleep(time.Duration(pr.Intn(4000))*time.Microsecond + time.Duration(ti*64+oi+1)*time.Nanosecond)
					}
					switch op.Op {
					case "write":
						pl := c34Payload(myWriter, seq, op.N)
						lg.writes = append(lg.writes, c34WriteRec{Writer: myWriter, Seq: seq, Len: len(pl)})
						seq++
						if _, err := c.Write(pl); err != nil {
							return
						}
					case "sleep":
						time.Sleep(time.Duration(op.DelayMs) * time.Millisecond)
					case "state":
						st := c.ConnectionState()
						if st.HandshakeComplete && (st.Version != sc.Version || st.CipherSuite != sc.Suite) {
							torn[ti] = fmt.Sprintf("version %04x suite %04x", st.Version, st.CipherSuite)
						}
					case "handshake":
						c.Handshake()
					case "setdl":
						c.SetDeadline(time.Now().Add(time.Duration(op.DelayMs+500) * time.Millisecond))
					case "setrdl":
						c.SetReadDeadline(time.Now().Add(time.Duration(op.DelayMs+500) * time.Millisecond))
					case "setwdl":
						c.SetWriteDeadline(time.Now().Add(time.Duration(op.DelayMs+500) * time.Millisecond))
					case "hello_request":
						if c.ConnectionState().HandshakeComplete {
							c.WriteRecord(22, []byte{0, 0, 0, 0})
						}
					case "key_update_kill":
						if c.ConnectionState().HandshakeComplete {
							c.WriteRecord(22, []byte{24, 0, 0, 1, 1})
							if tk.Side == 0 {
								harnessClosed0.Store(true)
							}
							c.NetConn().Close()
						}
					case "ccs_flood":
						if c.ConnectionState().HandshakeComplete {
							raw := []byte{20, 3, 3, 0, 1, 1}
							var b []byte
							for k := 0; k < 17+op.DelayMs%5; k++ {
								b = append(b, raw...)
							}
							c.NetConn().Write(b)
						}
					case "key_update_raw":
						if c.ConnectionState().HandshakeComplete {
							c.WriteRecord(22, []byte{24, 0, 0, 1, 1})
						}
					case "closewrite":
						c.CloseWrite()
					case "close":
						if tk.Side == 0 {
							harnessClosed0.Store(true)
						}
						c.Close()
						return
					}
				}
			}()
		}
		wg.Wait()
		finished = true
		simElapsed = time.Since(t0)
	})
	o.SimTime = simElapsed
	o.count("probe.raceB_runs", 1)
	if sc.CancelMs > 0 {
		o.count("probe.raceB_cancelled_handshakes", 1)
	}
	switch {
	case !finished:
		o.Fail = Failf("c34.blockedB", "goroutines never returned although every call has a deadline", "bubble ended with: %.400s", leak)
	}
	if sc.CancelAtIO > 0 {
		o.count("probe.raceB_cancel_at_io", 1)
		if hooked := hsErrs[0]; hooked == nil {
			o.count("probe.raceB_cancel_at_io_handshake_succeeded", 1)
		}
	}
	if o.Fail == nil && hsNilButTornDown {
		o.Fail = Failf("c34.handshake_ctx", "HandshakeContext returned nil for a connection whose transport the library had closed on cancellation", "cancelled while transport call %d of the client was returning", sc.CancelAtIO)
	}
	if o.Fail == nil {
		for ti, s := range torn {
			if s != "" {
				o.Fail = Failf("c34.torn", "ConnectionState observed inconsistent handshake state", "task %d: %s", ti, s)
			}
		}
	}
	if o.Fail == nil {
		for side := 0; side < 2; side++ {
			var writes []c34WriteRec
			for ti, tk := range sc.Tasks {
				if tk.Side == 1-side && logs[ti] != nil {
					writes = append(writes, logs[ti].writes...)
				}
			}
			if f := checkTaggedStream(recvs[side], writes, false); f != nil {
				f.Msg = fmt.Sprintf("engine B, direction %d→%d: %s", 1-side, side, f.Msg)
				o.Fail = f
				break
			}
			o.count("probe.bytes_received", len(recvs[side]))
		}
	}
	for _, rr := range kit.RaceDelta() {
		o.count("probe.race_reports", 1)
		if rr.InHarness {
			o.count("probe.race_in_harness", 1)
			continue
		}
		if rr.InRepo && o.Fail == nil {
			o.Fail = Failf("c34.race", "data race: "+rr.Sig, "%s", rr.Text)
		}
	}
	h := kit.NewHash64()
	// canonical log: what each direction received is schedule dependent in engine B; the fingerprint is the
	// scenario plus the structural outcome only
	b, _ := json.Marshal(sc)
	h.Write(b)
	h.WriteString(fmt.Sprint(finished))
	o.LogHash = h.Sum()
	o.Distinct = h.Sum()
	o.Nontrivial = true
	return o
}

// ioHookConn: the client's transport in engine B. When its at-th successful Read/Write has done its work, hook runs
// (the application cancels the handshake's context) and the call takes a little simulated time to return, so that
// whatever the cancellation triggers runs before the handshake sees the call's result.
type ioHookConn struct {
	*kit.BConn
	n, at  int32
	hook   func()
	closed atomic.Bool
}

func (w *ioHookConn) fire(err error) {
	if err == nil && w.at > 0 && atomic.AddInt32(&w.n, 1) == w.at && w.hook != nil {
		w.hook()
		time.Sleep(300 * time.Microsecond)
	}
}
func (w *ioHookConn) Read(p []byte) (int, error)  { n, err := w.BConn.Read(p); w.fire(err); return n, err }
func (w *ioHookConn) Write(p []byte) (int, error) { n, err := w.BConn.Write(p); w.fire(err); return n, err }
func (w *ioHookConn) Close() error                { w.closed.Store(true); return w.BConn.Close() }
