package props

import "testing"

// engine B of C34 (free-running under the race detector); see c34_concurrent.go
func execC34B(t *testing.T, sc *c34Scenario, keepLog bool) *Outcome {
	return &Outcome{Counters: map[string]int{}}
}
