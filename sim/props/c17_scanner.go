package props

import (
	"bytes"
	"encoding/base64"
	"encoding/binary"
	"encoding/json"
	"errors"
	"fmt"
	"io"
	"net/http"
	"strconv"
	"strings"
	"sync"
	"sync/atomic"
	"testing"
	"time"

	"github.com/sirupsen/logrus"
	"github.com/zmap/zcrypto/ct"
	"github.com/zmap/zcrypto/ct/client"
	"github.com/zmap/zcrypto/ct/scanner"
	ctx509 "github.com/zmap/zcrypto/ct/x509"
	"verifsim/kit"
)

// C17 (engine B): the real scanner, log client and net/http client run
// free-running inside a synctest bubble under the race detector against a
// simulated CT log. The simulator owns the clock (bubble), the transport (an
// http.RoundTripper), the fault plan and the pacing (seeded latencies).

type c17Scenario struct {
	Seed        uint64 `json:"seed"`
	TreeSize    int    `json:"tree_size"`
	Start       int    `json:"start"`
	MaxIndex    int    `json:"max_index"` // 0 = use the tree size
	Batch       int    `json:"batch"`
	Fetchers    int    `json:"fetchers"`
	Workers     int    `json:"workers"`
	PrecertOnly bool   `json:"precert_only"`
	PrecertPct  int    `json:"precert_pct"`
	FaultPct    int    `json:"fault_pct"`  // chance that an attempt (before the budget is used up) is answered with a fault
	PrefixPct   int    `json:"prefix_pct"` // chance that a correct answer is a strict non-empty prefix
	MaxFaults   int    `json:"max_faults"` // faults per range start; afterwards every request is answered
	LatencyMs   int    `json:"latency_ms"` // upper bound of the seeded per-request latency
	MatcherMs   int    `json:"matcher_ms"` // upper bound of the seeded per-callback delay
	NonFatalPct   int  `json:"nonfatal_pct"`   // share of entries whose certificate parses with a non-fatal error
	UnparsablePct int  `json:"unparsable_pct"` // share of entries that do not parse at all
	Rescan        bool `json:"rescan,omitempty"` // the same Scanner runs Scan a second time over the same range
	NilMatcher    bool `json:"nil_matcher,omitempty"` // ScannerOptions.Matcher left unset (documented default: match everything)
}

const c17MaxEntries = 1400

var (
	c17Mu    sync.Mutex
	c17CA    *kit.Cert
	c17Certs [c17MaxEntries]*kit.Cert
)

// c17Cert returns the (memoised, deterministic) certificate of log entry i.
func c17Cert(i int) *kit.Cert {
	c17Mu.Lock()
	defer c17Mu.Unlock()
	if c17CA == nil {
		c17CA = kit.MakeCert(kit.CertSpec{Name: "CT Sim CA", Key: "p256_5", IsCA: true, MaxPathLen: -1, Serial: 900})
	}
	if c17Certs[i] == nil {
		key := "p256_6"
		if i%3 == 1 {
			key = "rsa4"
		}
		c17Certs[i] = kit.MakeCert(kit.CertSpec{Name: fmt.Sprintf("entry-%d.ct.sim.test", i), Key: key, Issuer: c17CA, Serial: int64(1000 + i), DNSNames: []string{fmt.Sprintf("entry-%d.ct.sim.test", i)}})
	}
	return c17Certs[i]
}

func c17Pool(n int) {
	for i := 0; i < n; i++ {
		c17Cert(i)
	}
}

// entry kinds
const (
	c17Normal     = 0
	c17NonFatal   = 1 // parses with a non-fatal error (negative serial number): still handed to the matcher
	c17Unparsable = 2 // fatal parse error: by design not handed to the matcher
)

func c17Kind(sc *c17Scenario, i int) int {
	h := kit.NewRng(sc.Seed ^ uint64(i+3)*0x51f15e)
	v := h.Intn(100)
	switch {
	case v < sc.NonFatalPct:
		return c17NonFatal
	case v < sc.NonFatalPct+sc.UnparsablePct:
		return c17Unparsable
	}
	return c17Normal
}

// negSerial flips the sign bit of the two-byte serial number INTEGER that directly follows the
// version field, which makes the certificate parse with a non-fatal "negative serial number" error.
func negSerial(der []byte) []byte {
	d := append([]byte(nil), der...)
	k := bytes.Index(d, []byte{0xa0, 0x03, 0x02, 0x01, 0x02, 0x02, 0x02})
	if k < 0 || k > 16 {
		panic("c17: unexpected certificate layout")
	}
	d[k+7] |= 0x80
	return d
}

func genC17(seed uint64, tier string) any {
	r := kit.NewRng(seed)
	sc := &c17Scenario{Seed: seed}
	sc.TreeSize = []int{0, 1, 2, 5, 17, 40, 80, 96}[r.Intn(8)]
	if r.Chance(1, 2) {
		sc.TreeSize = r.Intn(97)
	}
	if sc.TreeSize > 0 && r.Chance(1, 3) {
		sc.Start = r.Intn(sc.TreeSize)
	}
	if sc.TreeSize > 0 && r.Chance(1, 4) {
		sc.MaxIndex = r.Range(sc.Start+1, sc.TreeSize)
	}
	if r.Chance(1, 12) {
		// a resume cursor at or beyond the end of the range: nothing to scan, the cursor must come back unchanged
		sc.Start = sc.TreeSize + r.Intn(4)
		if sc.TreeSize > 2 && r.Bool() {
			sc.MaxIndex = 1 + r.Intn(sc.TreeSize-1)
			sc.Start = sc.MaxIndex + r.Intn(3)
		}
	}
	sc.Batch = []int{1, 2, 3, 7, 10, 32, 100}[r.Intn(7)]
	sc.Fetchers = r.Range(1, 4)
	sc.Workers = r.Range(1, 4)
	sc.PrecertOnly = r.Chance(1, 6)
	sc.PrecertPct = []int{0, 20, 50, 100}[r.Intn(4)]
	sc.FaultPct = []int{0, 20, 50, 80}[r.Intn(4)]
	sc.PrefixPct = []int{0, 30, 70}[r.Intn(3)]
	sc.MaxFaults = r.Range(1, 4)
	sc.LatencyMs = []int{0, 1, 30, 700}[r.Intn(4)]
	sc.MatcherMs = []int{0, 0, 2, 40}[r.Intn(4)]
	sc.NonFatalPct = []int{0, 0, 30, 100}[r.Intn(4)]
	sc.UnparsablePct = []int{0, 0, 0, 25}[r.Intn(4)]
	if sc.NonFatalPct+sc.UnparsablePct > 100 {
		sc.UnparsablePct = 0
	}
	sc.Rescan = r.Chance(1, 6)
	sc.NilMatcher = r.Chance(1, 10)
	if r.Chance(1, 30) {
		sc.Rescan = false
		// more range requests than the scanner's internal queues hold: many single-entry batches
		sc.TreeSize = r.Range(1001, 1300)
		sc.Start, sc.MaxIndex, sc.Batch = 0, 0, 1
		sc.FaultPct, sc.PrefixPct = []int{0, 10}[r.Intn(2)], 0
		sc.LatencyMs, sc.MatcherMs = []int{0, 1}[r.Intn(2)], 0
	}
	return sc
}

func u24(n int) []byte { return []byte{byte(n >> 16), byte(n >> 8), byte(n)} }

// leafAndExtra encodes entry i per RFC 6962 sections 3.4 and 4.6.
func c17Entry(sc *c17Scenario, i int) (leaf, extra []byte, precert bool) {
	c := c17Cert(i)
	h := kit.NewRng(sc.Seed ^ uint64(i)*0x9e37)
	precert = h.Intn(100) < sc.PrecertPct
	der, tbs := c.DER, c.Std.RawTBSCertificate
	switch c17Kind(sc, i) {
	case c17NonFatal:
		der, tbs = negSerial(der), negSerial(tbs)
	case c17Unparsable:
		der, tbs = []byte{0x31, 0x03, 0x02, 0x01, byte(i)}, []byte{0x31, 0x03, 0x02, 0x01, byte(i)}
	}
	var b bytes.Buffer
	b.WriteByte(0) // v1
	b.WriteByte(0) // timestamped_entry
	binary.Write(&b, binary.BigEndian, uint64(1_000_000+i))
	if precert {
		binary.Write(&b, binary.BigEndian, uint16(1))
		var ikh [32]byte
		ikh[0] = byte(i)
		b.Write(ikh[:])
		b.Write(u24(len(tbs)))
		b.Write(tbs)
		extra = append(extra, u24(len(c.DER))...)
		extra = append(extra, c.DER...)
		extra = append(extra, u24(0)...)
	} else {
		binary.Write(&b, binary.BigEndian, uint16(0))
		b.Write(u24(len(der)))
		b.Write(der)
		extra = u24(0)
	}
	b.Write([]byte{0, 0}) // no extensions
	return b.Bytes(), extra, precert
}

// simLog is the simulated CT log server (an http.RoundTripper; no sockets).
type simLog struct {
	sc       *c17Scenario
	attempts [c17MaxEntries + 1]int32 // per range start
	faults   [c17MaxEntries + 1]int32
	// per-kind counters (atomic)
	nFull, nPrefix, n500, n4xx, nTransport, nBody, nSTH int32
	nOutside, livelock                                  int32
	localFailures                                       int32 // consecutive fetch failures reported by the scanner without any request reaching the log
	reqLog   [c17MaxEntries + 1][8]int32 // per range start, per attempt (up to 8): outcome code, for the canonical log
}

type failingBody struct {
	data []byte
	off  int
}

func (f *failingBody) Read(p []byte) (int, error) {
	if f.off >= len(f.data) {
		return 0, errors.New("simlog: connection reset while reading body")
	}
	n := copy(p, f.data[f.off:])
	f.off += n
	return n, nil
}
func (f *failingBody) Close() error { return nil }

func (l *simLog) respond(req *http.Request, code int, body io.ReadCloser) *http.Response {
	return &http.Response{StatusCode: code, Status: fmt.Sprintf("%d %s", code, http.StatusText(code)), Proto: "HTTP/1.1", ProtoMajor: 1, ProtoMinor: 1,
		Header: http.Header{"Content-Type": []string{"application/json"}}, Body: body, Request: req, ContentLength: -1}
}

// c17LogHook listens to the scanner's own log (a seam the caller owns): a fetch that fails before any request
// reaches the log, reported again and again, is a retry loop that can never make progress — and one that takes no
// simulated time, so nothing else would ever end it. After a bounded number of such reports in a row the
// reporting goroutine is parked for good and the run is classified as "Scan did not terminate".
type c17LogHook struct{ l *simLog }

func (h c17LogHook) Levels() []logrus.Level { return []logrus.Level{logrus.InfoLevel, logrus.WarnLevel, logrus.ErrorLevel} }
func (h c17LogHook) Fire(e *logrus.Entry) error {
	if strings.HasPrefix(e.Message, "Problem fetching from log") && atomic.AddInt32(&h.l.localFailures, 1) > 20000 {
		atomic.StoreInt32(&h.l.livelock, 2)
		select {}
	}
	return nil
}

func (l *simLog) RoundTrip(req *http.Request) (*http.Response, error) {
	sc := l.sc
	atomic.StoreInt32(&l.localFailures, 0)
	if strings.HasSuffix(req.URL.Path, "/ct/v1/get-sth") {
		atomic.AddInt32(&l.nSTH, 1)
		body, _ := json.Marshal(map[string]any{"tree_size": sc.TreeSize, "timestamp": 1234567, "sha256_root_hash": base64.StdEncoding.EncodeToString(make([]byte, 32)),
			"tree_head_signature": base64.StdEncoding.EncodeToString([]byte{4, 3, 0, 4, 1, 2, 3, 4})})
		return l.respond(req, 200, io.NopCloser(bytes.NewReader(body))), nil
	}
	start, _ := strconv.Atoi(req.URL.Query().Get("start"))
	end, _ := strconv.Atoi(req.URL.Query().Get("end"))
	if start < 0 || start >= sc.TreeSize || end < start {
		// A request outside the tree is answered like a real log would (400). A scanner that keeps asking for
		// it makes no progress: after a bounded number of such answers the simulated log stops answering, all
		// goroutines end up durably blocked and the run is classified as "Scan did not terminate".
		if atomic.AddInt32(&l.nOutside, 1) > 64 {
			atomic.StoreInt32(&l.livelock, 1)
			select {}
		}
		return l.respond(req, 400, io.NopCloser(strings.NewReader("bad range"))), nil
	}
	if end >= sc.TreeSize {
		end = sc.TreeSize - 1
	}
	att := int(atomic.AddInt32(&l.attempts[start], 1)) - 1
	if att > sc.MaxFaults+16 {
		// the same range start again and again although every request has been answered correctly since the
		// fault budget ran out: no progress (see above)
		atomic.StoreInt32(&l.livelock, 1)
		select {}
	}
	r := kit.NewRng(sc.Seed ^ uint64(start+1)*0x51ed27 ^ uint64(att+1)*0xabcdef1)
	// pacing: a unique simulated latency derived from (range start, attempt)
	if sc.LatencyMs > 0 {
		time.Sleep(time.Duration(r.Intn(sc.LatencyMs*1000))*time.Microsecond + time.Duration(start*17+att)*time.Nanosecond)
	}
	outcome := 0
	defer func() {
		if att < 8 {
			atomic.StoreInt32(&l.reqLog[start][att], int32(outcome)+1)
		}
	}()
	if int(atomic.LoadInt32(&l.faults[start])) < sc.MaxFaults && r.Intn(100) < sc.FaultPct {
		atomic.AddInt32(&l.faults[start], 1)
		switch r.Intn(4) {
		case 0:
			outcome = 2
			atomic.AddInt32(&l.n500, 1)
			return l.respond(req, 500, io.NopCloser(strings.NewReader("oops"))), nil
		case 1:
			outcome = 3
			atomic.AddInt32(&l.n4xx, 1)
			code := []int{429, 503, 404, 502}[r.Intn(4)]
			return l.respond(req, code, io.NopCloser(strings.NewReader("later"))), nil
		case 2:
			outcome = 4
			atomic.AddInt32(&l.nTransport, 1)
			return nil, errors.New("simlog: connection refused")
		default:
			outcome = 5
			atomic.AddInt32(&l.nBody, 1)
			full := l.entriesJSON(start, end)
			cut := 1 + r.Intn(len(full)-1)
			if r.Bool() {
				return l.respond(req, 200, io.NopCloser(bytes.NewReader(full[:cut]))), nil // truncated JSON
			}
			return l.respond(req, 200, &failingBody{data: full[:cut]}), nil // read error mid-body
		}
	}
	last := end
	if n := end - start + 1; n > 1 && r.Intn(100) < sc.PrefixPct {
		last = start + r.Intn(n-1) // strict, non-empty prefix
		outcome = 1
		atomic.AddInt32(&l.nPrefix, 1)
	} else {
		atomic.AddInt32(&l.nFull, 1)
	}
	return l.respond(req, 200, io.NopCloser(bytes.NewReader(l.entriesJSON(start, last)))), nil
}

func (l *simLog) entriesJSON(start, end int) []byte {
	type e struct {
		LeafInput string `json:"leaf_input"`
		ExtraData string `json:"extra_data"`
	}
	var es []e
	for i := start; i <= end; i++ {
		leaf, extra, _ := c17Entry(l.sc, i)
		es = append(es, e{base64.StdEncoding.EncodeToString(leaf), base64.StdEncoding.EncodeToString(extra)})
	}
	b, _ := json.Marshal(map[string]any{"entries": es})
	return b
}

// c17Matcher records, per entry, how often it was handed to the matcher.
type c17Matcher struct {
	sc   *c17Scenario
	hits *[c17MaxEntries]int32
	bad  *int32
}

func (m c17Matcher) delay(idx int) {
	if m.sc.MatcherMs > 0 {
		r := kit.NewRng(m.sc.Seed ^ uint64(idx+7)*0x77777)
		time.Sleep(time.Duration(r.Intn(m.sc.MatcherMs*1000))*time.Microsecond + time.Duration(idx)*time.Nanosecond)
	}
}

func c17Verdict(sc *c17Scenario, idx int) bool { return (uint64(idx)*2654435761+sc.Seed)%3 != 0 }

func (m c17Matcher) CertificateMatches(c *ctx509.Certificate) bool {
	idx := -1
	fmt.Sscanf(c.Subject.CommonName, "entry-%d.ct.sim.test", &idx)
	if idx < 0 || idx >= c17MaxEntries {
		atomic.AddInt32(m.bad, 1)
		return false
	}
	atomic.AddInt32(&m.hits[idx], 1)
	m.delay(idx)
	return c17Verdict(m.sc, idx)
}

func (m c17Matcher) PrecertificateMatches(p *ct.Precertificate) bool {
	if p.TBSCertificate == nil {
		atomic.AddInt32(m.bad, 1)
		return false
	}
	return m.CertificateMatches(p.TBSCertificate)
}

func execC17(t *testing.T, scAny any, keepLog bool) *Outcome {
	sc := scAny.(*c17Scenario)
	o := &Outcome{Counters: map[string]int{}}
	c17Pool(sc.TreeSize)
	var hits, found [c17MaxEntries]int32
	var foundWrongIndex, foundWrongLeaf, bad int32
	srv := &simLog{sc: sc}
	var ret, ret2 int64
	var scanErr error
	returned := false
	var simElapsed time.Duration
	leak := kit.Bubble(t, func() {
		t0 := time.Now()
		lc := client.NewWithRoundTripper("http://ct.sim.test", srv)
		lg := logrus.New()
		lg.SetOutput(io.Discard)
		lg.SetLevel(logrus.InfoLevel)
		lg.AddHook(c17LogHook{srv})
		opts := scanner.ScannerOptions{Matcher: c17Matcher{sc: sc, hits: &hits, bad: &bad}, PrecertOnly: sc.PrecertOnly, BatchSize: int64(sc.Batch), NumWorkers: sc.Workers,
			ParallelFetch: sc.Fetchers, StartIndex: int64(sc.Start), Quiet: true, Name: "simlog", MaximumIndex: int64(sc.MaxIndex)}
		if sc.NilMatcher {
			opts.Matcher = nil
		}
		s := scanner.NewScanner(lc, opts, lg)
		updater := make(chan int64, 1<<16)
		onFound := func(e *ct.LogEntry, _ string) {
			i := int(e.Index)
			if i < 0 || i >= c17MaxEntries {
				atomic.AddInt32(&foundWrongIndex, 1)
				return
			}
			atomic.AddInt32(&found[i], 1)
			// the entry delivered under index i must be the one the server stored at i
			wantLeaf, _, pre := c17Entry(sc, i)
			_ = wantLeaf
			raw := c17Cert(i).DER
			if pre {
				raw = c17Cert(i).Std.RawTBSCertificate
			}
			if c17Kind(sc, i) == c17NonFatal {
				raw = negSerial(raw)
			}
			if !bytes.Equal(e.RawCert, raw) || e.IsPrecert != pre || e.Leaf.TimestampedEntry.Timestamp != uint64(1_000_000+i) {
				atomic.AddInt32(&foundWrongLeaf, 1)
			}
		}
		ret, scanErr = s.Scan(onFound, onFound, updater)
		if sc.Rescan && scanErr == nil {
			ret2, scanErr = s.Scan(onFound, onFound, updater)
		}
		returned = true
		simElapsed = time.Since(t0)
	})
	o.SimTime = simElapsed
	stop := sc.MaxIndex
	if stop == 0 {
		stop = sc.TreeSize
	}
	o.count("fault.http_500", int(srv.n500))
	o.count("fault.http_other_status", int(srv.n4xx))
	o.count("fault.transport_error", int(srv.nTransport))
	o.count("fault.broken_body", int(srv.nBody))
	o.count("fault.prefix_reply", int(srv.nPrefix))
	o.count("probe.full_reply", int(srv.nFull))
	o.count("probe.entries_scanned", stop-sc.Start)
	// canonical event log: outcomes per (range start, attempt), matcher hits, return value
	h := kit.NewHash64()
	for i := 0; i <= c17MaxEntries; i++ {
		for a := 0; a < 8; a++ {
			h.WriteU64(uint64(srv.reqLog[i][a]))
		}
	}
	for i := range hits {
		h.WriteU64(uint64(hits[i])<<8 | uint64(found[i]))
	}
	h.WriteU64(uint64(ret))
	o.LogHash = h.Sum()
	sh := kit.NewHash64()
	b, _ := json.Marshal(sc)
	sh.Write(b)
	o.Distinct = sh.Sum()
	o.Nontrivial = stop-sc.Start > 0 && (sc.Fetchers > 1 || sc.Workers > 1 || srv.nPrefix+srv.n500+srv.n4xx+srv.nTransport+srv.nBody > 0)
	o.Steps = int(srv.nFull + srv.nPrefix + srv.n500 + srv.n4xx + srv.nTransport + srv.nBody)

	switch {
	case !returned && srv.livelock == 2:
		o.Fail = Failf("c17.termination", "Scan did not terminate after the faults stopped", "the scanner kept retrying a fetch that fails before any request reaches the log (20000 failures in a row)")
	case !returned && srv.livelock != 0:
		o.Fail = Failf("c17.termination", "Scan did not terminate after the faults stopped", "the scanner kept requesting the same range without progress (%d requests outside the tree)", srv.nOutside)
	case !returned:
		o.Fail = Failf("c17.termination", "Scan did not terminate after the faults stopped", "bubble ended with: %.300s", leak)
	case scanErr != nil:
		o.Fail = Failf("c17.error", "Scan returned an error", "%v", scanErr)
	case stop <= sc.Start && (ret != int64(sc.Start) || sc.Rescan && ret2 != int64(sc.Start)):
		o.Fail = Failf("c17.return", "Scan did not return start index + entries processed", "start %d at or beyond the range end %d: returned %d (nothing was processed, so the start index is expected)", sc.Start, stop, ret)
	case ret != int64(stop) && stop > sc.Start:
		o.Fail = Failf("c17.return", "Scan did not return start index + entries processed", "returned %d, start %d, range end %d", ret, sc.Start, stop)
	case sc.Rescan && ret2 != int64(stop) && stop > sc.Start:
		o.Fail = Failf("c17.return", "Scan did not return start index + entries processed", "second Scan of the same Scanner returned %d (first %d), start %d, range end %d", ret2, ret, sc.Start, stop)
	case bad != 0:
		o.Fail = Failf("c17.matcher", "matcher was handed a certificate that is not a log entry", "%d calls", bad)
	case foundWrongIndex != 0 || foundWrongLeaf != 0:
		o.Fail = Failf("c17.index", "found-callback delivered an entry under the wrong index", "wrong index %d wrong leaf %d", foundWrongIndex, foundWrongLeaf)
	}
	if o.Fail == nil {
		for i := 0; i < c17MaxEntries; i++ {
			if i >= sc.TreeSize {
				if hits[i] != 0 || found[i] != 0 {
					o.Fail = Failf("c17.exactly_once", "entry outside the log handed to a callback", "entry %d", i)
				}
				continue
			}
			_, _, pre := c17Entry(sc, i)
			want := int32(0)
			if i >= sc.Start && i < stop && !(sc.PrecertOnly && !pre) && c17Kind(sc, i) != c17Unparsable {
				want = 1
				if sc.Rescan {
					want = 2 // once per Scan
				}
			}
			if sc.NilMatcher {
				// no harness matcher in the loop: the default matcher matches everything, so the found-callbacks are the
				// record of what was processed
				if found[i] != want {
					o.Fail = Failf("c17.exactly_once", "entry not handed over exactly once per Scan (default matcher)", "entry %d: found-callbacks %d, expected %d", i, found[i], want)
					break
				}
				continue
			}
			if hits[i] != want {
				kind := "missed"
				if hits[i] > want {
					kind = "handed to the matcher more than once per Scan"
				}
				if want == 0 {
					kind = "outside the scanned range (or filtered) but handed to the matcher"
				}
				o.Fail = Failf("c17.exactly_once", "entry "+kind, "entry %d: matcher calls %d, expected %d (start %d end %d batch %d fetchers %d workers %d)", i, hits[i], want, sc.Start, stop, sc.Batch, sc.Fetchers, sc.Workers)
				break
			}
			wantFound := int32(0)
			if want >= 1 && c17Verdict(sc, i) {
				wantFound = want
			}
			if found[i] != wantFound {
				o.Fail = Failf("c17.found", "found-callback disagrees with the matcher's verdict", "entry %d: found calls %d expected %d", i, found[i], wantFound)
				break
			}
		}
	}
	// data races reported by the race detector during this run
	for _, rr := range kit.RaceDelta() {
		o.count("probe.race_reports", 1)
		if rr.InHarness {
			o.count("probe.race_in_harness", 1)
			continue
		}
		if rr.InRepo && o.Fail == nil {
			o.Fail = Failf("c17.race", "data race: "+rr.Sig, "%s", rr.Text)
		}
	}
	return o
}

func shrinkC17(scAny any) []any {
	sc := scAny.(*c17Scenario)
	var out []any
	add := func(f func(c *c17Scenario)) {
		c := *sc
		f(&c)
		if c != *sc {
			out = append(out, &c)
		}
	}
	add(func(c *c17Scenario) { c.FaultPct = 0 })
	add(func(c *c17Scenario) { c.PrefixPct = 0 })
	add(func(c *c17Scenario) { c.LatencyMs = 0 })
	add(func(c *c17Scenario) { c.MatcherMs = 0 })
	add(func(c *c17Scenario) { c.Fetchers = 1 })
	add(func(c *c17Scenario) { c.Workers = 1 })
	add(func(c *c17Scenario) { c.PrecertOnly = false })
	add(func(c *c17Scenario) { c.PrecertPct = 0 })
	add(func(c *c17Scenario) { c.Start = 0 })
	add(func(c *c17Scenario) { c.MaxIndex = 0 })
	add(func(c *c17Scenario) {
		c.TreeSize /= 2
		if c.Start >= c.TreeSize {
			c.Start = 0
		}
		if c.MaxIndex > c.TreeSize {
			c.MaxIndex = 0
		}
	})
	add(func(c *c17Scenario) {
		if c.TreeSize > 0 {
			c.TreeSize--
			if c.Start >= c.TreeSize {
				c.Start = 0
			}
			if c.MaxIndex > c.TreeSize {
				c.MaxIndex = 0
			}
		}
	})
	add(func(c *c17Scenario) { c.Batch = 100 })
	add(func(c *c17Scenario) { c.MaxFaults = 1 })
	return out
}

func init() {
	register(&Prop{
		ID: "C17", Level: "exploration", Engine: "B (free-running goroutines in a synctest bubble, race detector, simulated CT log as http.RoundTripper)",
		Rule: "seeded (tree size 0-96, start/maximum index, batch size, fetcher and matcher counts, precert mix, PrecertOnly) x server fault plan (prefix replies, HTTP 500/4xx/5xx, transport errors, truncated or failing bodies; budgeted per range) x seeded latencies in simulated time; non-trivial = entries scanned with more than one fetcher/matcher or at least one fault/prefix reply; distinct = hash of the scenario",
		Real:   []string{"scanner.Scanner.Scan with all its goroutines", "client.LogClient.GetSTH/GetEntries incl. JSON, base64 and Merkle-leaf decoding", "net/http.Client", "ct/x509 certificate parsing"},
		Stub:   []string{"CT log server (http.RoundTripper)", "matcher and found callbacks", "logrus output discarded", "clock (synctest bubble)"},
		Assume: []string{"the log answers every range request with a non-empty prefix or a transient error and faults stop after a per-range budget (the property's environment)", "all entries are parseable; with PrecertOnly X.509 entries are by design not handed to the matcher", "the race detector sees only the schedules that occur (coarse schedule is steered by seeded simulated delays)"},
		FaultKinds: []string{"fault.prefix_reply", "fault.http_500", "fault.http_other_status", "fault.transport_error", "fault.broken_body", "probe.full_reply", "probe.entries_scanned", "probe.race_reports", "probe.race_in_harness"},
		NotInjected: "empty replies and more-than-requested replies are outside the property's environment; no storage or crash-restart in the scanner",
		EngineB:     true,
		Gen:         genC17, New: func() any { return &c17Scenario{} }, Exec: execC17, Shrink: shrinkC17,
		QuickRuns: 1600, ThoroughRuns: 160000,
	})
}
