package props

import (
	"crypto/aes"
	"crypto/cipher"
	"encoding/binary"
	"fmt"
	"time"

	"verifsim/kit"
)

// A reference TLS 1.2 server for *abbreviated* handshakes (RFC 5246 7.3, RFC 5077 3.1/3.3), AES-GCM suites
// (RFC 5288) only, written from the RFCs with the standard library. Given the master secret of a session the
// zcrypto client has cached, it resumes that session and behaves in ways the RFCs allow but zcrypto's own server
// never shows: a zero-length NewSessionTicket ("the server does not want to include a ticket after all"), a
// fresh ticket with an arbitrary lifetime hint, or no session_ticket extension at all.

type stub12Result struct {
	Err          error
	SentNST      bool
	NSTTicket    []byte
	NSTHint      uint32
	ServerRandom []byte
	ClientHello  []byte // handshake message
	VerifyData   []byte
}

// readRecord reads one TLS record from the transport.
func stubReadRecord(c *kit.Conn, buf *[]byte) (typ byte, body []byte, err error) {
	for {
		if len(*buf) >= 5 {
			n := int((*buf)[3])<<8 | int((*buf)[4])
			if len(*buf) >= 5+n {
				typ, body = (*buf)[0], append([]byte(nil), (*buf)[5:5+n]...)
				*buf = (*buf)[5+n:]
				return typ, body, nil
			}
		}
		tmp := make([]byte, 4096)
		k, e := c.Read(tmp)
		*buf = append(*buf, tmp[:k]...)
		if e != nil && k == 0 {
			return 0, nil, e
		}
	}
}

// runStub12 serves one abbreviated handshake on conn. mode: 0 = session_ticket extension + zero-length
// NewSessionTicket, 1 = extension + fresh ticket, 2 = no extension and no NewSessionTicket.
func runStub12(s *kit.Sim, conn *kit.Conn, vers, suite uint16, master []byte, mode int, hint uint32, rng *kit.Rng) *stub12Result {
	res := &stub12Result{}
	var buf []byte
	conn.SetReadDeadline(s.Now().Add(20 * time.Second))
	typ, body, err := stubReadRecord(conn, &buf)
	if err != nil || typ != recHandshake || len(body) < 4 || body[0] != hsClientHello {
		res.Err = fmt.Errorf("stub: no ClientHello (%v)", err)
		return res
	}
	if int(body[1])<<16|int(body[2])<<8|int(body[3]) != len(body)-4 {
		res.Err = fmt.Errorf("stub: fragmented ClientHello")
		return res
	}
	res.ClientHello = body
	ch, err := parseClientHello(body[4:])
	if err != nil {
		res.Err = err
		return res
	}
	sha384 := suiteUsesSHA384(suite)
	keyLen := 16
	if sha384 {
		keyLen = 32
	}
	res.ServerRandom = rng.Bytes(32)
	// ServerHello: echoing the client's session id signals resumption from the ticket (RFC 5077 3.4)
	var sh []byte
	sh = append(sh, byte(vers>>8), byte(vers))
	sh = append(sh, res.ServerRandom...)
	sh = append(sh, byte(len(ch.SessionID)))
	sh = append(sh, ch.SessionID...)
	sh = append(sh, byte(suite>>8), byte(suite), 0)
	var exts []byte
	exts = append(exts, 0xff, 0x01, 0, 1, 0) // renegotiation_info, empty
	if mode != 2 {
		exts = append(exts, 0, 35, 0, 0)
	}
	sh = append(sh, byte(len(exts)>>8), byte(len(exts)))
	sh = append(sh, exts...)
	shMsg := append([]byte{hsServerHello, byte(len(sh) >> 16), byte(len(sh) >> 8), byte(len(sh))}, sh...)
	transcript := [][]byte{body, shMsg}
	out := append([]byte{recHandshake, byte(vers >> 8), byte(vers), byte(len(shMsg) >> 8), byte(len(shMsg))}, shMsg...)
	if mode != 2 {
		res.SentNST, res.NSTHint = true, hint
		if mode == 1 {
			res.NSTTicket = rng.Bytes(40 + rng.Intn(200))
		}
		var nst []byte
		nst = binary.BigEndian.AppendUint32(nst, hint)
		nst = append(nst, byte(len(res.NSTTicket)>>8), byte(len(res.NSTTicket)))
		nst = append(nst, res.NSTTicket...)
		nstMsg := append([]byte{hsNewSessionTicket, byte(len(nst) >> 16), byte(len(nst) >> 8), byte(len(nst))}, nst...)
		transcript = append(transcript, nstMsg)
		out = append(out, recHandshake, byte(vers>>8), byte(vers), byte(len(nstMsg)>>8), byte(len(nstMsg)))
		out = append(out, nstMsg...)
	}
	out = append(out, recCCS, byte(vers>>8), byte(vers), 0, 1, 1)
	// Finished under the server write key (RFC 5246 6.3, 7.4.9; RFC 5288 3)
	kb := refPRF(vers, sha384, master, "key expansion", append(append([]byte(nil), res.ServerRandom...), ch.Random...), 2*keyLen+8)
	serverKey, serverIV := kb[keyLen:2*keyLen], kb[2*keyLen+4:2*keyLen+8]
	res.VerifyData = refPRF(vers, sha384, master, "server finished", refTranscriptHash(vers, sha384, transcript), 12)
	fin := append([]byte{hsFinished, 0, 0, 12}, res.VerifyData...)
	blk, _ := aes.NewCipher(serverKey)
	aead, _ := cipher.NewGCM(blk)
	explicit := make([]byte, 8) // sequence number 0
	nonce := append(append([]byte(nil), serverIV...), explicit...)
	aad := append(make([]byte, 8), recHandshake, byte(vers>>8), byte(vers), byte(len(fin)>>8), byte(len(fin)))
	ct := aead.Seal(nil, nonce, fin, aad)
	rec := append(append([]byte(nil), explicit...), ct...)
	out = append(out, recHandshake, byte(vers>>8), byte(vers), byte(len(rec)>>8), byte(len(rec)))
	out = append(out, rec...)
	if _, err := conn.Write(out); err != nil {
		res.Err = err
		return res
	}
	// swallow whatever the client sends (ChangeCipherSpec, Finished, close_notify) until it closes
	for {
		if _, _, err := stubReadRecord(conn, &buf); err != nil {
			break
		}
	}
	conn.Close()
	return res
}
