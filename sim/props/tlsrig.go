package props

import (
	stdx509 "crypto/x509"
	"net"
	"strings"
	"sync"
	"time"

	"github.com/zmap/zcrypto/tls"
	zx509 "github.com/zmap/zcrypto/x509"
	"verifsim/kit"
)

// Shared TLS rig: a fixed simulated PKI (built deterministically from the
// committed key pool), JSON-describable endpoint configurations and helpers to
// run real zcrypto endpoints over simnet under the lockstep scheduler.

const serverName = "server.sim.test"

type simPKI struct {
	Root, Inter       *kit.Cert
	BadRoot           *kit.Cert            // not trusted by anyone
	Server            map[string]*kit.Cert // by key kind: rsa, p256, p384, ed
	ServerUntrusted   map[string]*kit.Cert
	ServerWrongName   map[string]*kit.Cert
	ServerShort       map[string]*kit.Cert // valid 1999-12-01 .. 2000-02-01 only (for clock-skew scenarios)
	Client            map[string]*kit.Cert
	ClientUntrusted   map[string]*kit.Cert
	ClientShort       map[string]*kit.Cert
	ShortRoot, ShortInter *kit.Cert         // root valid 1990-01-01 .. 2000-02-01, everything below it valid until 2090
	ServerShortRoot   map[string]*kit.Cert // leaf under ShortRoot/ShortInter
	ServerIP          map[string]*kit.Cert // leaf with an IP SAN (10.1.2.3) besides the DNS name
	ShortRootPool     *zx509.CertPool
	// chains that are well-signed but not authorised: a CA below the pathLenConstraint-0 intermediate, and a
	// certificate "issued" by an end-entity certificate
	DeepCA            *kit.Cert            // CA issued by Inter (which has pathLenConstraint 0)
	ServerDeep        map[string]*kit.Cert // leaf under DeepCA: chain leaf, DeepCA, Inter
	ClientDeep        map[string]*kit.Cert
	ServerUnderLeaf   map[string]*kit.Cert // leaf signed by the key of an end-entity certificate (Server["p256"])
	ClientUnderLeaf   map[string]*kit.Cert
	ServerCNOnly      map[string]*kit.Cert // CN = server name, subjectAltName present but without any dNSName (an IP address only)
	ServerOddEKU      map[string]*kit.Cert // extended key usage lists a private OID only
	ClientOddEKU      map[string]*kit.Cert
	// certificates whose own signature does not verify although it is well-formed: the issuer named is an ECDSA CA
	// (the root, or InterEC), the signature was made with another key of the same type
	InterEC           *kit.Cert            // ECDSA-keyed CA under the root
	ForgedInter       *kit.Cert            // names the (ECDSA) root as issuer, signed by a stranger's P-256 key
	ServerForgedLeaf  map[string]*kit.Cert // names InterEC as issuer, signed by a stranger's P-256 key: chain leaf, InterEC
	ServerUnderForged map[string]*kit.Cert // properly signed by ForgedInter: chain leaf, ForgedInter
	ServerPrefix      map[string][]*kit.Cert // names that are label-wise prefixes of the server name: "server.sim", "*.sim", "server"
	InterNoSign       *kit.Cert              // CA:TRUE under the root, keyUsage digitalSignature|cRLSign (no keyCertSign)
	ServerUnderNoSign map[string]*kit.Cert
	ClientUnderNoSign map[string]*kit.Cert
	MixExpired        *kit.Cert // "Sim Reissued CA": expired since 1999-12-20, no extended key usage
	MixEmail          *kit.Cert // the same subject and key re-issued: valid, extended key usage emailProtection only
	ServerUnderMix    map[string]*kit.Cert
	ClientUnderMix    map[string]*kit.Cert
	ClientForgedLeaf  map[string]*kit.Cert
	RootPool, BadPool *zx509.CertPool
	InterPool         *zx509.CertPool
}

var keyOfKind = map[string]string{"rsa": "rsa0", "p256": "p256_1", "p384": "p384_0", "ed": "ed0"}
var clientKeyOfKind = map[string]string{"rsa": "rsa1", "p256": "p256_2", "p384": "p384_1", "ed": "ed1"}
var otherKeyOfKind = map[string]string{"rsa": "rsa2", "p256": "p256_3", "p384": "p384_2", "ed": "ed2"} // "wrong key" of the same type

var (
	pkiOnce sync.Once
	thePKI  *simPKI
)

func zparse(der []byte) *zx509.Certificate {
	c, err := zx509.ParseCertificate(der)
	if err != nil {
		panic(err)
	}
	return c
}

func pki() *simPKI {
	pkiOnce.Do(func() {
		p := &simPKI{Server: map[string]*kit.Cert{}, ServerUntrusted: map[string]*kit.Cert{}, ServerWrongName: map[string]*kit.Cert{},
			ServerShort: map[string]*kit.Cert{}, ServerShortRoot: map[string]*kit.Cert{}, ServerIP: map[string]*kit.Cert{}, Client: map[string]*kit.Cert{}, ClientUntrusted: map[string]*kit.Cert{}, ClientShort: map[string]*kit.Cert{}}
		p.Root = kit.MakeCert(kit.CertSpec{Name: "Sim Root CA", Key: "p256_0", IsCA: true, MaxPathLen: -1, Serial: 1})
		p.Inter = kit.MakeCert(kit.CertSpec{Name: "Sim Intermediate CA", Key: "rsa3", IsCA: true, MaxPathLen: 0, Issuer: p.Root, Serial: 2})
		p.BadRoot = kit.MakeCert(kit.CertSpec{Name: "Untrusted Root CA", Key: "p256_4", IsCA: true, MaxPathLen: -1, Serial: 3})
		short0 := time.Date(1999, 12, 1, 0, 0, 0, 0, time.UTC)
		short1 := time.Date(2000, 2, 1, 0, 0, 0, 0, time.UTC)
		p.ShortRoot = kit.MakeCert(kit.CertSpec{Name: "Short-lived Root CA", Key: "p256_11", IsCA: true, MaxPathLen: -1, Serial: 4, NotAfter: short1})
		p.ShortInter = kit.MakeCert(kit.CertSpec{Name: "Inter under short-lived root", Key: "rsa4", IsCA: true, MaxPathLen: 0, Issuer: p.ShortRoot, Serial: 5})
		n := int64(10)
		for _, kind := range []string{"rsa", "p256", "p384", "ed"} {
			n += 10
			p.ServerShortRoot[kind] = kit.MakeCert(kit.CertSpec{Name: serverName, Key: keyOfKind[kind], Issuer: p.ShortInter, DNSNames: []string{serverName}, Serial: n + 7})
			p.ServerIP[kind] = kit.MakeCert(kit.CertSpec{Name: serverName, Key: keyOfKind[kind], Issuer: p.Inter, DNSNames: []string{serverName}, IPs: []net.IP{net.ParseIP("10.1.2.3")}, Serial: n + 8})
			p.Server[kind] = kit.MakeCert(kit.CertSpec{Name: serverName, Key: keyOfKind[kind], Issuer: p.Inter, DNSNames: []string{serverName}, Serial: n})
			p.ServerUntrusted[kind] = kit.MakeCert(kit.CertSpec{Name: serverName, Key: keyOfKind[kind], Issuer: p.BadRoot, DNSNames: []string{serverName}, Serial: n + 1})
			p.ServerWrongName[kind] = kit.MakeCert(kit.CertSpec{Name: "other.sim.test", Key: keyOfKind[kind], Issuer: p.Inter, DNSNames: []string{"other.sim.test"}, Serial: n + 2})
			p.ServerShort[kind] = kit.MakeCert(kit.CertSpec{Name: serverName, Key: keyOfKind[kind], Issuer: p.Inter, DNSNames: []string{serverName}, Serial: n + 3, NotBefore: short0, NotAfter: short1})
			p.Client[kind] = kit.MakeCert(kit.CertSpec{Name: "client-" + kind, Key: clientKeyOfKind[kind], Issuer: p.Inter, Serial: n + 4, ClientAuth: true})
			p.ClientUntrusted[kind] = kit.MakeCert(kit.CertSpec{Name: "client-" + kind, Key: clientKeyOfKind[kind], Issuer: p.BadRoot, Serial: n + 5, ClientAuth: true})
			p.ClientShort[kind] = kit.MakeCert(kit.CertSpec{Name: "client-" + kind, Key: clientKeyOfKind[kind], Issuer: p.Inter, Serial: n + 6, ClientAuth: true, NotBefore: short0, NotAfter: short1})
		}
		p.DeepCA = kit.MakeCert(kit.CertSpec{Name: "CA below a pathlen-0 CA", Key: "p256_12", IsCA: true, MaxPathLen: -1, Issuer: p.Inter, Serial: 6})
		p.ServerDeep, p.ClientDeep, p.ServerUnderLeaf, p.ClientUnderLeaf = map[string]*kit.Cert{}, map[string]*kit.Cert{}, map[string]*kit.Cert{}, map[string]*kit.Cert{}
		p.ServerCNOnly, p.ServerOddEKU, p.ClientOddEKU = map[string]*kit.Cert{}, map[string]*kit.Cert{}, map[string]*kit.Cert{}
		p.ServerForgedLeaf, p.ServerUnderForged, p.ClientForgedLeaf = map[string]*kit.Cert{}, map[string]*kit.Cert{}, map[string]*kit.Cert{}
		p.InterEC = kit.MakeCert(kit.CertSpec{Name: "Sim EC Intermediate CA", Key: "p256_13", IsCA: true, MaxPathLen: 0, Issuer: p.Root, Serial: 7})
		p.ForgedInter = kit.MakeCert(kit.CertSpec{Name: "Forged Intermediate CA", Key: "p256_14", IsCA: true, MaxPathLen: 0, Issuer: p.Root, IssuerKey: "p256_15", Serial: 8})
		n = 200
		for _, kind := range []string{"rsa", "p256", "p384", "ed"} {
			n += 10
			p.ServerDeep[kind] = kit.MakeCert(kit.CertSpec{Name: serverName, Key: keyOfKind[kind], Issuer: p.DeepCA, DNSNames: []string{serverName}, Serial: n})
			p.ClientDeep[kind] = kit.MakeCert(kit.CertSpec{Name: "client-" + kind, Key: clientKeyOfKind[kind], Issuer: p.DeepCA, Serial: n + 1, ClientAuth: true})
			p.ServerUnderLeaf[kind] = kit.MakeCert(kit.CertSpec{Name: serverName, Key: keyOfKind[kind], Issuer: p.Server["p256"], DNSNames: []string{serverName}, Serial: n + 2})
			p.ClientUnderLeaf[kind] = kit.MakeCert(kit.CertSpec{Name: "client-" + kind, Key: clientKeyOfKind[kind], Issuer: p.Server["p256"], Serial: n + 3, ClientAuth: true})
			p.ServerCNOnly[kind] = kit.MakeCert(kit.CertSpec{Name: serverName, Key: keyOfKind[kind], Issuer: p.Inter, IPs: []net.IP{net.ParseIP("10.9.9.9")}, Serial: n + 4})
			p.ServerOddEKU[kind] = kit.MakeCert(kit.CertSpec{Name: serverName, Key: keyOfKind[kind], Issuer: p.Inter, DNSNames: []string{serverName}, Serial: n + 5, UnknownEKU: true})
			p.ClientOddEKU[kind] = kit.MakeCert(kit.CertSpec{Name: "client-" + kind, Key: clientKeyOfKind[kind], Issuer: p.Inter, Serial: n + 6, UnknownEKU: true})
			p.ServerForgedLeaf[kind] = kit.MakeCert(kit.CertSpec{Name: serverName, Key: keyOfKind[kind], Issuer: p.InterEC, IssuerKey: "p256_15", DNSNames: []string{serverName}, Serial: n + 7})
			p.ServerUnderForged[kind] = kit.MakeCert(kit.CertSpec{Name: serverName, Key: keyOfKind[kind], Issuer: p.ForgedInter, DNSNames: []string{serverName}, Serial: n + 8})
			p.ClientForgedLeaf[kind] = kit.MakeCert(kit.CertSpec{Name: "client-" + kind, Key: clientKeyOfKind[kind], Issuer: p.InterEC, IssuerKey: "p256_15", Serial: n + 9, ClientAuth: true})
		}
		p.ServerPrefix, p.ServerUnderNoSign, p.ClientUnderNoSign = map[string][]*kit.Cert{}, map[string]*kit.Cert{}, map[string]*kit.Cert{}
		p.ServerUnderMix, p.ClientUnderMix = map[string]*kit.Cert{}, map[string]*kit.Cert{}
		p.InterNoSign = kit.MakeCert(kit.CertSpec{Name: "CA without keyCertSign", Key: "p256_10", IsCA: true, MaxPathLen: 0, Issuer: p.Root, Serial: 9,
			KeyUsage: int(stdx509.KeyUsageDigitalSignature | stdx509.KeyUsageCRLSign)})
		p.MixExpired = kit.MakeCert(kit.CertSpec{Name: "Sim Reissued CA", Key: "p256_9", IsCA: true, MaxPathLen: 0, Issuer: p.Root, Serial: 10,
			NotBefore: time.Date(1999, 1, 1, 0, 0, 0, 0, time.UTC), NotAfter: time.Date(1999, 12, 20, 0, 0, 0, 0, time.UTC)})
		p.MixEmail = kit.MakeCert(kit.CertSpec{Name: "Sim Reissued CA", Key: "p256_9", IsCA: true, MaxPathLen: 0, Issuer: p.Root, Serial: 11, EmailEKU: true})
		n = 400
		for _, kind := range []string{"rsa", "p256", "p384", "ed"} {
			n += 10
			for i, name := range []string{"server.sim", "*.sim", "server"} {
				p.ServerPrefix[kind] = append(p.ServerPrefix[kind], kit.MakeCert(kit.CertSpec{Name: name, Key: keyOfKind[kind], Issuer: p.Inter, DNSNames: []string{name}, Serial: n + int64(i)}))
			}
			p.ServerUnderNoSign[kind] = kit.MakeCert(kit.CertSpec{Name: serverName, Key: keyOfKind[kind], Issuer: p.InterNoSign, DNSNames: []string{serverName}, Serial: n + 3})
			p.ClientUnderNoSign[kind] = kit.MakeCert(kit.CertSpec{Name: "client-" + kind, Key: clientKeyOfKind[kind], Issuer: p.InterNoSign, Serial: n + 4, ClientAuth: true})
			p.ServerUnderMix[kind] = kit.MakeCert(kit.CertSpec{Name: serverName, Key: keyOfKind[kind], Issuer: p.MixEmail, DNSNames: []string{serverName}, Serial: n + 5})
			p.ClientUnderMix[kind] = kit.MakeCert(kit.CertSpec{Name: "client-" + kind, Key: clientKeyOfKind[kind], Issuer: p.MixEmail, Serial: n + 6, ClientAuth: true})
		}
		p.RootPool = zx509.NewCertPool()
		p.RootPool.AddCert(zparse(p.Root.DER))
		p.ShortRootPool = zx509.NewCertPool()
		p.ShortRootPool.AddCert(zparse(p.ShortRoot.DER))
		p.BadPool = zx509.NewCertPool()
		p.BadPool.AddCert(zparse(p.BadRoot.DER))
		p.InterPool = zx509.NewCertPool()
		p.InterPool.AddCert(zparse(p.Inter.DER))
		thePKI = p
	})
	return thePKI
}

// tlsCert assembles a tls.Certificate: leaf + intermediate, with the private key
// of the named pool key (which may deliberately not match the leaf).
func tlsCert(leaf *kit.Cert, withInter bool, keyName string) tls.Certificate {
	c := tls.Certificate{Certificate: [][]byte{leaf.DER}, PrivateKey: kit.TLSKey(keyName)}
	if withInter {
		c.Certificate = append(c.Certificate, pki().Inter.DER)
	}
	return c
}

// EndCfg is the JSON-describable part of a tls.Config used by scenarios.
type EndCfg struct {
	MinVersion   uint16   `json:"min,omitempty"`
	MaxVersion   uint16   `json:"max,omitempty"`
	Suites       []uint16 `json:"suites,omitempty"` // nil = library default
	ForceSuites  bool     `json:"force,omitempty"`
	PreferServer bool     `json:"prefer_server,omitempty"`
	Curves       []uint16 `json:"curves,omitempty"`
	ALPN         []string `json:"alpn,omitempty"`
	NoTickets    bool     `json:"no_tickets,omitempty"`
	Cache        bool     `json:"cache,omitempty"` // client: use a session cache
	KeyKind      string   `json:"key,omitempty"`   // server: rsa | p256 | p384 | ed
	KeyKind2     string   `json:"key2,omitempty"`  // server: a second certificate with another key type (Config.Certificates[1])
	ClientAuth   int      `json:"client_auth,omitempty"`
	ClientCert   string   `json:"client_cert,omitempty"` // client: key kind of its certificate, "" = none
	NoBuffer     bool     `json:"no_buffer,omitempty"`
	NoDynRec     bool     `json:"no_dynrec,omitempty"`
	NoBEAST      bool     `json:"no_beast,omitempty"`
	EMS          bool     `json:"ems,omitempty"`
	SkipVerify   bool     `json:"skip_verify,omitempty"` // client: InsecureSkipVerify
	SigHashes    []uint16 `json:"sig_hashes,omitempty"`  // client: Config.SignatureAndHashes as hash<<8|signature
	ForceTicket  bool     `json:"force_ticket,omitempty"` // client: Config.ForceSessionTicketExt
	SCTExt       bool     `json:"sct_ext,omitempty"`      // client: Config.SignedCertificateTimestampExt
}

type NetCfg struct {
	SegMode    int  `json:"seg_mode"`
	MaxSeg     int  `json:"max_seg"`
	LatMinUs   int  `json:"lat_min_us"`
	LatMaxUs   int  `json:"lat_max_us"`
	ShortReads bool `json:"short_reads"`
	Window     int  `json:"window,omitempty"`
	EOFData    bool `json:"eof_with_data,omitempty"`
}

func (n NetCfg) params() kit.NetParams {
	return kit.NetParams{SegMode: n.SegMode, MaxSeg: n.MaxSeg, LatencyMin: time.Duration(n.LatMinUs) * time.Microsecond,
		LatencyMax: time.Duration(n.LatMaxUs) * time.Microsecond, ShortReads: n.ShortReads, Window: n.Window, EOFWithData: n.EOFData}
}

func genNet(r *kit.Rng) NetCfg {
	n := NetCfg{SegMode: r.Pick([]int{3, 5, 1}), ShortReads: r.Chance(1, 2), EOFData: r.Chance(1, 3)}
	n.MaxSeg = []int{0, 1, 7, 100, 536, 1460, 16384}[r.Intn(7)]
	if n.SegMode == 1 && n.MaxSeg == 1 {
		n.MaxSeg = 3
	}
	n.LatMinUs = []int{0, 10, 1000, 20000}[r.Intn(4)]
	n.LatMaxUs = n.LatMinUs + []int{0, 50, 5000, 200000}[r.Intn(4)]
	return n
}

func curveIDs(c []uint16) []tls.CurveID {
	var o []tls.CurveID
	for _, x := range c {
		o = append(o, tls.CurveID(x))
	}
	return o
}

// serverConfig builds the server side tls.Config for an EndCfg.
func serverConfig(e EndCfg, s *kit.Sim, rng *kit.Rng) *tls.Config {
	p := pki()
	kind := e.KeyKind
	if kind == "" {
		kind = "rsa"
	}
	c := &tls.Config{
		Certificates:                []tls.Certificate{tlsCert(p.Server[kind], true, keyOfKind[kind])},
		MinVersion:                  e.MinVersion,
		MaxVersion:                  e.MaxVersion,
		CipherSuites:                e.Suites,
		PreferServerCipherSuites:    e.PreferServer,
		CurvePreferences:            curveIDs(e.Curves),
		NextProtos:                  e.ALPN,
		SessionTicketsDisabled:      e.NoTickets,
		ClientAuth:                  tls.ClientAuthType(e.ClientAuth),
		ClientCAs:                   p.RootPool,
		DontBufferHandshakes:        e.NoBuffer,
		DynamicRecordSizingDisabled: e.NoDynRec,
		DisableTLS10BEASTMitigation: e.NoBEAST,
		ExtendedMasterSecret:        e.EMS,
		Rand:                        kit.NewReader(rng),
		Time:                        s.Now,
	}
	if e.KeyKind2 != "" {
		c.Certificates = append(c.Certificates, tlsCert(p.Server[e.KeyKind2], true, keyOfKind[e.KeyKind2]))
	}
	return c
}

func clientConfig(e EndCfg, s *kit.Sim, rng *kit.Rng) *tls.Config {
	p := pki()
	c := &tls.Config{
		RootCAs:                     p.RootPool,
		ServerName:                  serverName,
		MinVersion:                  e.MinVersion,
		MaxVersion:                  e.MaxVersion,
		CipherSuites:                e.Suites,
		ForceSuites:                 e.ForceSuites,
		CurvePreferences:            curveIDs(e.Curves),
		NextProtos:                  e.ALPN,
		SessionTicketsDisabled:      e.NoTickets,
		DontBufferHandshakes:        e.NoBuffer,
		DynamicRecordSizingDisabled: e.NoDynRec,
		DisableTLS10BEASTMitigation: e.NoBEAST,
		ExtendedMasterSecret:        e.EMS,
		Rand:                        kit.NewReader(rng),
		Time:                        s.Now,
	}
	c.InsecureSkipVerify = e.SkipVerify
	c.ForceSessionTicketExt = e.ForceTicket
	c.SignedCertificateTimestampExt = e.SCTExt
	for _, sh := range e.SigHashes {
		c.SignatureAndHashes = append(c.SignatureAndHashes, tls.SigAndHash{Signature: uint8(sh), Hash: uint8(sh >> 8)})
	}
	if e.ClientCert != "" {
		c.Certificates = []tls.Certificate{tlsCert(p.Client[e.ClientCert], true, clientKeyOfKind[e.ClientCert])}
	}
	return c
}

// simRun bundles what every engine-A TLS scenario needs.
type simRun struct {
	S *kit.Sim
	R *kit.Rng
}

func newSimRun(seed uint64, tape []int, keepLog bool) *simRun {
	r := kit.NewRng(seed)
	s := kit.NewSim(r)
	s.InBubble = true
	s.KeepLog = keepLog
	if tape != nil {
		s.Tape = tape
		s.TapeOnly = true
	}
	s.Stickiness = []int{0, 50, 90}[r.Derive("stick").Intn(3)]
	return &simRun{S: s, R: r}
}

func finishOutcome(o *Outcome, s *kit.Sim) {
	if s.StepCapHit || s.TimeCapHit {
		// The per-run step / simulated-time cap is a bound of the harness, not a verdict about the code: a run
		// that was cut off (and whose tasks were aborted) is inconclusive. Only panics and the explicit
		// "calls did not return" oracles of C32/C34 (whose caps are far above what a correct run needs) stand.
		if o.Fail != nil && !strings.HasSuffix(o.Fail.Oracle, ".panic") && !strings.HasSuffix(o.Fail.Oracle, ".noreturn") {
			o.Fail = nil
		}
		o.count("probe.inconclusive_run_hit_cap", 1)
	}
	o.LogHash = s.LogHash()
	o.SimTime += s.Elapsed()
	o.Steps += s.Steps
	for k, v := range s.Counters {
		o.count(k, v)
	}
	if s.KeepLog {
		o.LogLines = append(o.LogLines, s.LogLines...)
	}
}

func u16in(x uint16, l []uint16) bool {
	for _, y := range l {
		if x == y {
			return true
		}
	}
	return false
}
