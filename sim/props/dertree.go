package props

import (
	"fmt"
)

// A minimal DER tree used to place faults structurally: every byte of an
// encoding gets a label (path + part), and a tree can be altered (junk
// appended inside an element, a child dropped / duplicated) and re-encoded
// with all enclosing lengths fixed up. Written from X.690; no zcrypto code.

type derNode struct {
	Tag      []byte // identifier octets
	Children []*derNode
	Content  []byte // primitive content (or opaque content when not expanded)
	Wrapped  *derNode // OCTET STRING / BIT STRING whose content is itself DER and was expanded
	Prefix   []byte   // for an expanded BIT STRING: the unused-bits octet
	// position in the original encoding
	Start, HdrEnd, End int
}

func (n *derNode) constructed() bool { return n.Tag[0]&0x20 != 0 }

// parseDER parses one element at der[off:]; expand decides whether the content of a primitive OCTET STRING
// should itself be parsed as DER (given the path of the element).
func parseDER(der []byte, off int, path string, expand func(path string) bool) (*derNode, int, error) {
	start := off
	if off >= len(der) {
		return nil, 0, fmt.Errorf("truncated at %d", off)
	}
	n := &derNode{Start: start}
	n.Tag = []byte{der[off]}
	if der[off]&0x1f == 0x1f {
		for {
			off++
			if off >= len(der) {
				return nil, 0, fmt.Errorf("truncated tag")
			}
			n.Tag = append(n.Tag, der[off])
			if der[off]&0x80 == 0 {
				break
			}
		}
	}
	off++
	if off >= len(der) {
		return nil, 0, fmt.Errorf("truncated length")
	}
	l := int(der[off])
	off++
	if l&0x80 != 0 {
		k := l & 0x7f
		if k == 0 || k > 4 || off+k > len(der) {
			return nil, 0, fmt.Errorf("bad length at %d", off)
		}
		l = 0
		for i := 0; i < k; i++ {
			l = l<<8 | int(der[off+i])
		}
		off += k
	}
	if off+l > len(der) {
		return nil, 0, fmt.Errorf("length %d exceeds input at %d", l, off)
	}
	n.HdrEnd = off
	n.End = off + l
	body := der[off : off+l]
	if n.constructed() {
		p := off
		i := 0
		for p < n.End {
			c, np, err := parseDER(der, p, fmt.Sprintf("%s.%d", path, i), expand)
			if err != nil || np > n.End {
				return nil, 0, fmt.Errorf("child of %s: %v", path, err)
			}
			n.Children = append(n.Children, c)
			p = np
			i++
		}
	} else if expand != nil && n.Tag[0] == 0x04 && expand(path) {
		c, np, err := parseDER(der, off, path+".w", expand)
		if err == nil && np == n.End {
			n.Wrapped = c
		} else {
			n.Content = append([]byte(nil), body...)
		}
	} else {
		n.Content = append([]byte(nil), body...)
	}
	return n, n.End, nil
}

func derLen(l int) []byte {
	if l < 0x80 {
		return []byte{byte(l)}
	}
	var b []byte
	for x := l; x > 0; x >>= 8 {
		b = append([]byte{byte(x)}, b...)
	}
	return append([]byte{0x80 | byte(len(b))}, b...)
}

// encode re-serialises the tree with minimal definite lengths.
func (n *derNode) encode() []byte {
	var body []byte
	switch {
	case n.Wrapped != nil:
		body = append(append([]byte(nil), n.Prefix...), n.Wrapped.encode()...)
		body = append(body, n.Content...) // bytes placed after the wrapped element (tampering)
	case n.constructed():
		for _, c := range n.Children {
			body = append(body, c.encode()...)
		}
		body = append(body, n.Content...) // raw bytes placed after the last child (tampering)
	default:
		body = n.Content
	}
	out := append([]byte(nil), n.Tag...)
	out = append(out, derLen(len(body))...)
	return append(out, body...)
}

// walk visits every node with its path ("" for the root, ".i" per child, ".w" for wrapped content).
func (n *derNode) walk(path string, f func(path string, n *derNode)) {
	f(path, n)
	if n.Wrapped != nil {
		n.Wrapped.walk(path+".w", f)
	}
	for i, c := range n.Children {
		c.walk(fmt.Sprintf("%s.%d", path, i), f)
	}
}

// labelAt names the part of the original encoding that byte offset off belongs to: "<path>:tag", "<path>:len"
// or "<path>:val" of the innermost element containing it.
func (n *derNode) labelAt(off int) string {
	best := ""
	n.walk("", func(path string, m *derNode) {
		if off < m.Start || off >= m.End {
			return
		}
		switch {
		case off < m.Start+len(m.Tag):
			best = path + ":tag"
		case off < m.HdrEnd:
			best = path + ":len"
		case !m.constructed() && m.Wrapped == nil:
			best = path + ":val"
		}
	})
	return best
}

func (n *derNode) find(path string) *derNode {
	var r *derNode
	n.walk("", func(p string, m *derNode) {
		if p == path {
			r = m
		}
	})
	return r
}
