package props

import (
	"bytes"
	"encoding/base64"
	"encoding/hex"
	"encoding/json"
	"fmt"
	"math/big"
	"strings"
	"testing"
	"time"

	"github.com/zmap/zcrypto/tls"
	"verifsim/kit"
)

// C28: the client handshake log (struct and JSON) against an independent parse
// of the transcript captured at the transport seam, tied to the secrets through
// the NSS key log and a reference PRF.

type c28Scenario struct {
	Seed   uint64 `json:"seed"`
	Client EndCfg `json:"client"`
	Server EndCfg `json:"server"`
	Net    NetCfg `json:"net"`
	Resume bool   `json:"resume"`
	CutAt  int    `json:"cut_at,omitempty"` // >0: the server→client stream is cut (FIN) at this offset of the first connection
	Decline bool  `json:"decline,omitempty"` // the second connection meets a server that has tickets disabled: the offered ticket is declined
	SCTs   int    `json:"scts,omitempty"`    // number of SCTs the server attaches (well-formed, unknown version, truncated, ...)
	// StubResume > 0: after the first connection the cached TLS 1.2 session is resumed against the harness's
	// reference server (c28_stub12.go): 1 = zero-length NewSessionTicket, 2 = fresh ticket, 3 = no ticket extension
	StubResume int    `json:"stub_resume,omitempty"`
	StubHint   uint32 `json:"stub_hint,omitempty"`
	// FPSid >= 0: the client sends a fingerprinted ClientHello (ClientFingerprintConfiguration) whose session id has
	// this length; the log must still show what went over the wire
	FPSid int `json:"fp_sid"`
	// External > 0: the client is given a ready-made ClientHello (Config.ExternalClientHello) whose SNI names another
	// host than Config.ServerName; what goes on the wire and what is logged must still agree
	External int `json:"external,omitempty"`
	Tape   []int  `json:"tape,omitempty"`
}

func genC28(seed uint64, tier string) any {
	r := kit.NewRng(seed)
	base := genC24(r.Uint64(), tier).(*c24Scenario)
	base.Client.Curves, base.Server.Curves = stripHybrid(base.Client.Curves), stripHybrid(base.Server.Curves) // ML-KEM reads system entropy
	sc := &c28Scenario{Seed: seed, Client: base.Client, Server: base.Server, Net: base.Net}
	sc.Client.Cache = r.Chance(4, 5)
	sc.Resume = sc.Client.Cache && r.Chance(1, 2)
	sc.Client.EMS = r.Chance(1, 3)
	sc.Server.EMS = r.Chance(1, 2)
	sc.Decline = sc.Resume && r.Chance(1, 4)
	sc.SCTs = []int{0, 0, 1, 2, 3, 4}[r.Intn(6)]
	// settings that are applied to the ClientHello after it has been built
	sc.Client.ForceTicket = r.Chance(1, 4)
	sc.Client.SCTExt = r.Chance(1, 4)
	if r.Chance(1, 8) {
		sc.Client.NoTickets = true
	}
	if r.Chance(1, 5) {
		// a scanning client: no certificate verification, and only some (signature, hash) pairs acceptable
		sc.Client.SkipVerify = true
		for k := r.Range(1, 3); k > 0; k-- {
			sc.Client.SigHashes = append(sc.Client.SigHashes, uint16(r.Range(2, 6))<<8|1)
		}
	}
	// most runs should negotiate TLS <= 1.2, where the log has the most fields
	if r.Chance(1, 2) {
		sc.Server.MaxVersion = []uint16{vTLS10, vTLS11, vTLS12, vTLS12}[r.Intn(4)]
		if sc.Server.MinVersion > sc.Server.MaxVersion {
			sc.Server.MinVersion = 0
		}
	}
	if r.Chance(1, 6) {
		sc.CutAt = 1 + r.Intn(5000)
		sc.Resume = false
	}
	sc.FPSid = -1
	if r.Chance(1, 12) {
		sc.External = 1 + r.Intn(2)
		sc.Resume, sc.Decline, sc.CutAt = false, false, 0
		sc.Client.Cache = false
		sc.Server.MinVersion, sc.Server.MaxVersion, sc.Server.Suites, sc.Server.KeyKind, sc.Server.KeyKind2, sc.Server.Curves = 0, vTLS12, nil, "rsa", "", nil
		return sc
	}
	if r.Chance(1, 10) {
		sc.FPSid = []int{0, 1, 8, 16, 31, 32}[r.Intn(6)]
		sc.Resume, sc.Decline, sc.CutAt = false, false, 0
		sc.Client.Cache = false
		sc.Server.MinVersion, sc.Server.MaxVersion, sc.Server.Suites, sc.Server.KeyKind, sc.Server.KeyKind2, sc.Server.Curves = 0, 0, nil, "rsa", "", nil
		return sc
	}
	if r.Chance(1, 8) {
		// a TLS 1.2 AES-GCM session, resumed against a conforming server that is not zcrypto's
		sc.StubResume = 1 + r.Intn(3)
		sc.StubHint = []uint32{0, 1, 300, 7200, 604800, 0xffffffff}[r.Intn(6)]
		sc.CutAt, sc.Resume, sc.Decline = 0, false, false
		suite := []uint16{0xc02f, 0xc030, 0x009c, 0x009d}[r.Intn(4)]
		if sc.Server.KeyKind != "rsa" && sc.Server.KeyKind != "" {
			suite = []uint16{0xc02b, 0xc02c}[r.Intn(2)]
		}
		for _, e := range []*EndCfg{&sc.Client, &sc.Server} {
			e.MinVersion, e.MaxVersion, e.Suites, e.Curves, e.EMS, e.NoTickets = vTLS12, vTLS12, []uint16{suite}, nil, false, false
		}
		sc.Client.Cache, sc.Client.ForceSuites, sc.Client.SigHashes = true, false, nil
		sc.Server.KeyKind2 = ""
	}
	return sc
}

type wireSKX struct {
	ECDHE   bool
	Curve   uint16
	Point   []byte
	P, G, Y []byte
	HasAlg  bool
	Hash    byte
	Sig     byte
	SigData []byte
	Params  []byte
}

func parseSKX(body []byte, kx int, version uint16) (*wireSKX, error) {
	r := &reader{b: body}
	k := &wireSKX{}
	if kx == kxECDHERSA || kx == kxECDHEECDSA {
		k.ECDHE = true
		if r.u8() != 3 {
			return nil, fmt.Errorf("not a named curve")
		}
		k.Curve = uint16(r.u16())
		k.Point = r.vec8()
	} else {
		k.P, k.G, k.Y = r.vec16(), r.vec16(), r.vec16()
	}
	k.Params = body[:len(body)-len(r.b)]
	if version >= vTLS12 {
		k.HasAlg = true
		k.Hash = byte(r.u8())
		k.Sig = byte(r.u8())
	}
	k.SigData = r.vec16()
	if r.err || len(r.b) != 0 {
		return nil, fmt.Errorf("malformed ServerKeyExchange")
	}
	return k, nil
}

// expected algorithm names for a TLS 1.2 SignatureScheme code point (RFC 5246 7.4.1.4.1, RFC 8446 4.2.3)
func schemeNames(hashB, sigB byte) (sigFamily string, hashNames []string) {
	hn := map[byte]string{1: "md5", 2: "sha1", 3: "sha224", 4: "sha256", 5: "sha384", 6: "sha512"}
	if hashB == 8 {
		switch sigB {
		case 4, 9:
			return "rsa", []string{"sha256", "intrinsic"}
		case 5, 10:
			return "rsa", []string{"sha384", "intrinsic"}
		case 6, 11:
			return "rsa", []string{"sha512", "intrinsic"}
		case 7:
			return "ed25519", nil
		}
		return "", nil
	}
	h, ok := hn[hashB]
	if !ok {
		return "", nil
	}
	switch sigB {
	case 1:
		return "rsa", []string{h}
	case 2:
		return "dsa", []string{h}
	case 3:
		return "ecdsa", []string{h}
	}
	return "", nil
}

func sigFamilyOf(name string) string {
	switch name {
	case "rsa", "pkcs1v15", "rsapss":
		return "rsa"
	}
	return name
}

func strIn(s string, l []string) bool {
	for _, x := range l {
		if x == s {
			return true
		}
	}
	return false
}

func parseKeyLog(b []byte) map[string][]byte {
	out := map[string][]byte{}
	for _, line := range strings.Split(string(b), "\n") {
		f := strings.Fields(line)
		if len(f) == 3 && f[0] == "CLIENT_RANDOM" {
			ms, _ := hex.DecodeString(f[2])
			out[f[1]] = ms
		}
	}
	return out
}

func execC28(t *testing.T, scAny any, keepLog bool) *Outcome {
	sc := scAny.(*c28Scenario)
	o := &Outcome{Counters: map[string]int{}}
	kit.Bubble(t, func() {
		run := newSimRun(sc.Seed, sc.Tape, keepLog)
		s := run.S
		scfg := serverConfig(sc.Server, s, run.R.Derive("srv-rand"))
		ccfg := clientConfig(sc.Client, s, run.R.Derive("cli-rand"))
		// signature_algorithms of a ClientHello that comes from a template: what the template says, including code points
		// this library has no name for (rsa_pss_pss_*, ed448, SHA-224 / DSA pairs, a GREASE value)
		tmplSigAlgs := [][]uint16{{0x0401, 0x0501, 0x0201}, {0x0809, 0x0401, 0x0808, 0x0501, 0x0302, 0x0201}, {0x0403, 0x080a, 0x0804, 0x0401, 0x0a0a}}[int(sc.Seed>>7)%3]
		if sc.FPSid >= 0 {
			ccfg.ForceSuites = true
			ccfg.ClientFingerprintConfiguration = &tls.ClientFingerprintConfiguration{
				HandshakeVersion:   vTLS12,
				SessionID:          run.R.Derive("fp-sid").Bytes(sc.FPSid),
				CipherSuites:       []uint16{0xc02f, 0xc013, 0x009c, 0x002f, 0x0035},
				CompressionMethods: []uint8{0},
				Extensions: []tls.ClientExtension{&tls.SNIExtension{Autopopulate: true}, &tls.SupportedCurvesExtension{Curves: []tls.CurveID{tls.X25519, tls.CurveP256}},
					&tls.PointFormatExtension{Formats: []uint8{0}}, &tls.SignatureAlgorithmExtension{SignatureAndHashes: tmplSigAlgs}, &tls.SecureRenegotiationExtension{}},
			}
			o.count("probe.fingerprinted_client_hello", 1)
		}
		if sc.External > 0 {
			// a TLS 1.2 ClientHello assembled by the harness (RFC 5246 7.4.1.2 and the extension RFCs)
			var b []byte
			b = append(b, 3, 3)
			b = append(b, run.R.Derive("ext-hello").Bytes(32)...)
			b = append(b, 0) // empty session id
			suites := []uint16{0xc02f, 0xc013, 0x009c, 0x002f, 0x0035}
			b = append(b, 0, byte(2*len(suites)))
			for _, id := range suites {
				b = append(b, byte(id>>8), byte(id))
			}
			b = append(b, 1, 0)
			sni := []string{"template.invalid", serverName}[sc.External-1]
			var ex []byte
			ex = append(ex, refExt(fpExt{Kind: "sni", Names: []string{sni}}, "")...)
			ex = append(ex, refExt(fpExt{Kind: "curves", U16: []uint16{29, 23}}, "")...)
			ex = append(ex, refExt(fpExt{Kind: "points", Bytes: []byte{0}}, "")...)
			ex = append(ex, refExt(fpExt{Kind: "sigalgs", U16: tmplSigAlgs}, "")...)
			ex = append(ex, refExt(fpExt{Kind: "reneg"}, "")...)
			b = append(b, byte(len(ex)>>8), byte(len(ex)))
			b = append(b, ex...)
			ccfg.ExternalClientHello = append([]byte{hsClientHello, byte(len(b) >> 16), byte(len(b) >> 8), byte(len(b))}, b...)
			ccfg.ForceSuites = true
			o.count("probe.external_client_hello", 1)
		}
		var keylog bytes.Buffer
		ccfg.KeyLogWriter = &keylog
		cache := &simCache{cur: map[string]*tls.ClientSessionState{}}
		if sc.Client.Cache {
			ccfg.ClientSessionCache = cache
		}
		if sc.SCTs > 0 {
			scfg.Certificates[0].SignedCertificateTimestamps = c28SCTs(sc.SCTs, sc.Seed)
		}
		var cut *byteFilter
		co := startConn(run, "a", ccfg, scfg, sc.Net, nil)
		if sc.CutAt > 0 {
			cut = &byteFilter{faults: []resolvedFault{{At: sc.CutAt, F: byteFault{Kind: "trunc"}}}}
			co.SNet.SetFilter(cut)
		}
		s.Run()
		if cut != nil && len(cut.Fired) > 0 {
			o.count("fault.connection_cut", 1)
		}
		o.Fail = c28Check(sc, co, keylog.Bytes(), nil, o)
		if o.Fail == nil && sc.Resume && co.CErr == nil && co.SErr == nil {
			var presented []byte
			if cur := cache.cur[serverName]; cur != nil {
				presented = tls.VerifSessionTicket(cur)
			}
			scfg2 := scfg
			if sc.Decline {
				scfg2 = scfg.Clone()
				scfg2.SessionTicketsDisabled = true
				o.count("fault.ticket_declined_by_server", 1)
			}
			co2 := startConn(run, "b", ccfg, scfg2, sc.Net, nil)
			s.Run()
			o.Fail = c28Check(sc, co2, keylog.Bytes(), presented, o)
		}
		if o.Fail == nil && sc.StubResume > 0 && co.CErr == nil && co.SErr == nil {
			if cur := cache.cur[serverName]; cur != nil {
				vers, suite := tls.VerifSessionParams(cur)
				master, _ := tls.VerifSessionSecret(cur)
				presented := tls.VerifSessionTicket(cur)
				if vers == vTLS12 && suiteByID[suite] != nil && suiteByID[suite].Class == ccAESGCM && len(presented) > 0 {
					cn, sn := s.Pipe("rc", "rs", sc.Net.params(), sc.Net.params())
					co2 := &connOutcome{CNet: cn, SNet: sn, Client: tls.Client(cn, ccfg)}
					var st *stub12Result
					s.Go("r-client", func() {
						c := co2.Client
						c.SetDeadline(s.Now().Add(30 * time.Second))
						co2.CErr = c.Handshake()
						co2.CState = c.ConnectionState()
						c.Close()
					})
					s.Go("r-stub", func() {
						st = runStub12(s, sn, vers, suite, master, sc.StubResume-1, sc.StubHint, run.R.Derive("stub12"))
					})
					s.Run()
					switch {
					case st == nil || st.Err != nil:
						o.count("probe.stub_resume_not_started", 1)
					case co2.CErr != nil || !co2.CState.DidResume:
						// not the log's business, but the scenario proves nothing then
						o.count("probe.stub_resume_refused_by_client", 1)
					default:
						o.count(fmt.Sprintf("fault.resumed_by_reference_server_mode_%d", sc.StubResume), 1)
						o.Fail = c28Check(sc, co2, keylog.Bytes(), presented, o)
						if lt := co2.Client.GetHandshakeLog().SessionTicket; o.Fail == nil && st.SentNST && lt == nil {
							o.Fail = Failf("c28.ticket", "a NewSessionTicket was received on a resumed handshake but the log has no session ticket", "hint %d, %d-byte ticket", st.NSTHint, len(st.NSTTicket))
						}
					}
				}
			}
		}
		for _, p := range s.Panics() {
			o.Fail = Failf("c28.panic", panicSite(p.Stack), "task %s panicked: %v\n%s", p.Name, p.PanicVal, p.Stack)
		}
		if o.Fail == nil && (len(s.Deadlock) > 0 || s.StepCapHit) {
			o.Fail = Failf("c28.stuck", "tasks did not finish", "deadlock=%v", s.Deadlock)
		}
		finishOutcome(o, s)
		h := kit.NewHash64()
		b, _ := json.Marshal(sc)
		h.Write(b)
		o.Distinct = h.Sum()
	})
	return o
}

func bigEq(a *big.Int, b []byte) bool {
	return a != nil && a.Cmp(new(big.Int).SetBytes(b)) == 0
}

func c28Check(sc *c28Scenario, co *connOutcome, keylog []byte, presentedTicket []byte, o *Outcome) *Failure {
	log := co.Client.GetHandshakeLog()
	if log == nil {
		return nil
	}
	jb, err := json.Marshal(log)
	if err != nil {
		return Failf("c28.json", "handshake log does not marshal", "%v", err)
	}
	var jm map[string]any
	if err := json.Unmarshal(jb, &jm); err != nil {
		return Failf("c28.json", "handshake log JSON does not parse", "%v", err)
	}
	cRecs, _ := parseRecords(co.CNet.SentStream())
	cMsgs, _ := plaintextHandshake(cRecs)
	sRecs, _ := parseRecords(co.SNet.DeliveredStream())
	sMsgs, _ := plaintextHandshake(sRecs)

	// ---- ClientHello
	var wch *wireClientHello
	if m := firstMsg(cMsgs, hsClientHello); m != nil {
		wch, _ = parseClientHello(m.Body)
	}
	if lch := log.ClientHello; lch != nil {
		if wch == nil {
			return Failf("c28.clienthello", "log has a ClientHello but none is on the wire", "")
		}
		o.Nontrivial = true
		o.count("probe.clienthello_compared", 1)
		if uint16(lch.Version) != wch.Vers || !bytes.Equal(lch.Random, wch.Random) || !bytes.Equal(lch.SessionID, wch.SessionID) {
			return Failf("c28.clienthello", "logged ClientHello version/random/session id differ from the wire", "log %04x %x %x wire %04x %x %x", lch.Version, lch.Random, lch.SessionID, wch.Vers, wch.Random, wch.SessionID)
		}
		if len(lch.CipherSuites) != len(wch.Suites) {
			return Failf("c28.clienthello", "logged cipher suite list differs from the wire", "log %v wire %04x", lch.CipherSuites, wch.Suites)
		}
		for i, cs := range lch.CipherSuites {
			if uint16(cs) != wch.Suites[i] {
				return Failf("c28.clienthello", "logged cipher suite list differs from the wire", "position %d: log %04x wire %04x", i, uint16(cs), wch.Suites[i])
			}
		}
		if len(lch.CompressionMethods) != len(wch.Compression) {
			return Failf("c28.clienthello", "logged compression methods differ from the wire", "")
		}
		for i, cm := range lch.CompressionMethods {
			if byte(cm) != wch.Compression[i] {
				return Failf("c28.clienthello", "logged compression methods differ from the wire", "")
			}
		}
		if d, ok := wch.ext(0); ok { // SNI
			r := &reader{b: d}
			l := &reader{b: r.vec16()}
			l.u8()
			name := string(l.vec16())
			if lch.ServerName != name {
				return Failf("c28.clienthello", "logged server name differs from the SNI on the wire", "log %q wire %q", lch.ServerName, name)
			}
		} else if lch.ServerName != "" {
			return Failf("c28.clienthello", "log has a server name but no SNI was sent", "%q", lch.ServerName)
		}
		if d, ok := wch.ext(10); ok && len(d) >= 2 {
			w := u16list(d[2:])
			if len(w) != len(lch.SupportedCurves) {
				return Failf("c28.clienthello", "logged supported curves differ from the wire", "log %v wire %v", lch.SupportedCurves, w)
			}
			for i := range w {
				if uint16(lch.SupportedCurves[i]) != w[i] {
					return Failf("c28.clienthello", "logged supported curves differ from the wire", "log %v wire %v", lch.SupportedCurves, w)
				}
			}
		}
		if d, ok := wch.ext(43); ok && len(d) >= 1 {
			w := u16list(d[1:])
			if len(w) != len(lch.SupportedVersions) {
				return Failf("c28.clienthello", "logged supported versions differ from the wire", "log %v wire %04x", lch.SupportedVersions, w)
			}
			for i := range w {
				if uint16(lch.SupportedVersions[i]) != w[i] {
					return Failf("c28.clienthello", "logged supported versions differ from the wire", "log %v wire %04x", lch.SupportedVersions, w)
				}
			}
		}
		if d, ok := wch.ext(16); ok && len(d) >= 2 {
			var w []string
			r := &reader{b: d[2:]}
			for len(r.b) > 0 && !r.err {
				w = append(w, string(r.vec8()))
			}
			if strings.Join(w, ",") != strings.Join(lch.AlpnProtocols, ",") {
				return Failf("c28.clienthello", "logged ALPN protocols differ from the wire", "log %q wire %q", lch.AlpnProtocols, w)
			}
		}
		tk, hasTicketExt := wch.ext(35)
		if lch.TicketSupported != hasTicketExt {
			return Failf("c28.clienthello", "logged ticket support flag differs from the wire", "log %v, session_ticket extension present %v", lch.TicketSupported, hasTicketExt)
		}
		if _, has := wch.ext(18); lch.Scts != has {
			return Failf("c28.clienthello", "logged SCT request flag differs from the wire", "log %v, signed_certificate_timestamp extension present %v", lch.Scts, has)
		}
		if d, ok := wch.ext(11); ok && len(d) >= 1 {
			if len(lch.SupportedPoints) != len(d)-1 {
				return Failf("c28.clienthello", "logged point formats differ from the wire", "log %v wire %x", lch.SupportedPoints, d[1:])
			}
			for i, pf := range lch.SupportedPoints {
				if byte(pf) != d[1+i] {
					return Failf("c28.clienthello", "logged point formats differ from the wire", "log %v wire %x", lch.SupportedPoints, d[1:])
				}
			}
		}
		if _, has := wch.ext(5); lch.OcspStapling != has {
			return Failf("c28.clienthello", "logged OCSP stapling flag differs from the wire", "log %v wire %v", lch.OcspStapling, has)
		}
		if lch.SessionTicket != nil {
			o.count("probe.clienthello_ticket_logged", 1)
			if lch.SessionTicket.Length != len(tk) || !bytes.Equal(lch.SessionTicket.Value, tk) {
				return Failf("c28.clienthello.ticket", "logged ClientHello session ticket is not the ticket sent (incomplete byte string)", "log length field %d, value %d bytes; wire %d bytes", lch.SessionTicket.Length, len(lch.SessionTicket.Value), len(tk))
			}
		} else if len(tk) > 0 {
			return Failf("c28.clienthello.ticket", "a session ticket was sent but the log has none", "wire %d bytes", len(tk))
		}
		if d, ok := wch.ext(13); ok && len(d) >= 2 {
			// logged (signature, hash) names must follow the wire list in order
			w := u16list(d[2:])
			jl, _ := dig(jm, "client_hello", "signature_and_hashes").([]any)
			wi := 0
			for _, e := range jl {
				em, _ := e.(map[string]any)
				sn, _ := em["signature_algorithm"].(string)
				hn, _ := em["hash_algorithm"].(string)
				found := false
				for wi < len(w) {
					fam, hs := schemeNames(byte(w[wi]>>8), byte(w[wi]))
					wi++
					if fam != "" && fam == sigFamilyOf(sn) && (hs == nil || strIn(hn, hs)) {
						found = true
						break
					}
				}
				if !found {
					return Failf("c28.clienthello", "logged signature/hash list does not follow the signature_algorithms sent", "log entry %s/%s, wire %04x", sn, hn, w)
				}
			}
		}
	}

	// ---- ServerHello
	var wsh *wireServerHello
	if lsh := log.ServerHello; lsh != nil {
		matched := false
		var why string
		for _, m := range sMsgs {
			if m.Type != hsServerHello {
				continue
			}
			sh, err := parseServerHello(m.Body)
			if err != nil {
				continue
			}
			if wsh == nil || !bytes.Equal(sh.Random, helloRetryRandom) {
				wsh = sh
			}
			if uint16(lsh.Version) == sh.Vers && bytes.Equal(lsh.Random, sh.Random) && bytes.Equal(lsh.SessionID, sh.SessionID) &&
				uint16(lsh.CipherSuite) == sh.Suite && byte(lsh.CompressionMethod) == sh.Compression {
				matched = true
				_, t35 := sh.ext(35)
				_, t5 := sh.ext(5)
				_, t23 := sh.ext(23)
				// the list of extension types, in wire order
				if lsh.ExtensionIdentifiers != nil || len(sh.Exts) > 0 {
					var wireIDs []uint16
					for _, e := range sh.Exts {
						wireIDs = append(wireIDs, e.Type)
					}
					if fmt.Sprint(wireIDs) != fmt.Sprint(lsh.ExtensionIdentifiers) {
						return Failf("c28.serverhello", "logged list of ServerHello extension types differs from the wire", "log %v wire %v", lsh.ExtensionIdentifiers, wireIDs)
					}
					o.count("probe.serverhello_extension_ids_compared", 1)
				}
				// (the log sets secure_renegotiation only for a non-empty renegotiated_connection field: a false flag is an
				// unpopulated part; a true one needs the extension with data on the wire)
				if d, tff01 := sh.ext(0xff01); lsh.SecureRenegotiation && (!tff01 || len(d) < 2) {
					return Failf("c28.serverhello", "secure renegotiation logged although the wire carries no renegotiation data", "renegotiation_info present %v (%d bytes)", tff01, len(d))
				}
				if lsh.TicketSupported != t35 || lsh.OcspStapling != t5 || lsh.ExtendedMasterSecret != t23 {
					return Failf("c28.serverhello", "logged ServerHello extension flags differ from the wire", "log ticket=%v ocsp=%v ems=%v wire %v %v %v", lsh.TicketSupported, lsh.OcspStapling, lsh.ExtendedMasterSecret, t35, t5, t23)
				}
				if d, ok := sh.ext(43); ok && len(d) == 2 {
					if lsh.SupportedVersions == nil || uint16(lsh.SupportedVersions.SelectedVersion) != uint16(d[0])<<8|uint16(d[1]) {
						return Failf("c28.serverhello", "logged selected version differs from the wire", "")
					}
				}
				if d, ok := sh.ext(51); ok && len(d) >= 2 {
					g := uint16(d[0])<<8 | uint16(d[1])
					if lsh.KeyShare == nil || lsh.KeyShare.KeyExchange == nil || uint16(*lsh.KeyShare.KeyExchange) != g {
						return Failf("c28.serverhello", "logged key share group differs from the wire", "wire %d", g)
					}
				}
				if d, ok := sh.ext(16); ok && len(d) >= 3 {
					if lsh.AlpnProtocol != string(d[3:]) {
						return Failf("c28.serverhello", "logged ALPN protocol differs from the wire", "log %q wire %q", lsh.AlpnProtocol, d[3:])
					}
				}
				break
			}
			why = fmt.Sprintf("log %04x/%x/%04x wire %04x/%x/%04x", lsh.Version, lsh.Random, uint16(lsh.CipherSuite), sh.Vers, sh.Random, sh.Suite)
		}
		if !matched {
			return Failf("c28.serverhello", "logged ServerHello matches no ServerHello on the wire", "%s", why)
		}
		o.count("probe.serverhello_compared", 1)
		// signed certificate timestamps (TLS <= 1.2: extension 18 of the ServerHello)
		if wsh != nil {
			if d, ok := wsh.ext(18); ok && len(d) >= 2 {
				var wire [][]byte
				r := &reader{b: d[2:]}
				for len(r.b) > 0 && !r.err {
					wire = append(wire, r.vec16())
				}
				if len(lsh.SignedCertificateTimestamps) != len(wire) {
					return Failf("c28.scts", "logged SCT list differs from the list in the ServerHello", "log %d SCTs, wire %d", len(lsh.SignedCertificateTimestamps), len(wire))
				}
				for i := range wire {
					if !bytes.Equal(lsh.SignedCertificateTimestamps[i].Raw, wire[i]) {
						return Failf("c28.scts", "logged SCT differs from the one on the wire", "position %d", i)
					}
				}
				o.count("probe.scts_compared", 1)
			}
		}
	}
	if wsh == nil {
		return nil
	}
	version := wsh.negotiatedVersion()
	si := suiteByID[wsh.Suite]

	// ---- server certificates
	if lc := log.ServerCertificates; lc != nil {
		var wireCerts [][]byte
		if version == vTLS13 {
			for _, c := range co.Server.Config().Certificates[0].Certificate {
				wireCerts = append(wireCerts, c)
			}
		} else if m := firstMsg(sMsgs, hsCertificate); m != nil {
			r := &reader{b: m.Body}
			l := &reader{b: r.vec24()}
			for len(l.b) > 0 && !l.err {
				wireCerts = append(wireCerts, l.vec24())
			}
		}
		if len(wireCerts) == 0 {
			return Failf("c28.certs", "log has server certificates but none were sent", "")
		}
		if !bytes.Equal(lc.Certificate.Raw, wireCerts[0]) || len(lc.Chain) != len(wireCerts)-1 {
			return Failf("c28.certs", "logged server certificate chain differs from the one sent", "log leaf %d bytes + %d chain, wire %d certificates", len(lc.Certificate.Raw), len(lc.Chain), len(wireCerts))
		}
		for i := range lc.Chain {
			if !bytes.Equal(lc.Chain[i].Raw, wireCerts[i+1]) {
				return Failf("c28.certs", "logged server certificate chain differs from the one sent", "chain element %d", i)
			}
		}
		o.count("probe.certs_compared", 1)
	}
	if version == vTLS13 || si == nil {
		return nil
	}
	sha384 := suiteUsesSHA384(wsh.Suite)

	// ---- ServerKeyExchange
	if lk := log.ServerKeyExchange; lk != nil {
		m := firstMsg(sMsgs, hsServerKeyExchange)
		if m == nil {
			return Failf("c28.skx", "log has a ServerKeyExchange but none is on the wire", "")
		}
		w, err := parseSKX(m.Body, si.Kx, version)
		if err != nil {
			return Failf("c28.skx", "ServerKeyExchange on the wire does not parse", "%v", err)
		}
		o.count("probe.skx_compared", 1)
		if w.ECDHE {
			if lk.ECDHParams == nil || uint16(lk.ECDHParams.TLSCurveID) != w.Curve || lk.ECDHParams.ServerPublic == nil {
				return Failf("c28.skx", "logged ECDH parameters differ from the wire", "wire curve %d", w.Curve)
			}
			sp := lk.ECDHParams.ServerPublic
			if w.Curve == 29 {
				if !bigEq(sp.X, w.Point) {
					return Failf("c28.skx", "logged X25519 server share differs from the wire", "")
				}
			} else {
				n := (len(w.Point) - 1) / 2
				if len(w.Point) < 3 || w.Point[0] != 4 || !bigEq(sp.X, w.Point[1:1+n]) || !bigEq(sp.Y, w.Point[1+n:]) {
					return Failf("c28.skx", "logged ECDH server point differs from the wire", "")
				}
			}
		} else {
			d := lk.DHParams
			if d == nil || !bigEq(d.Prime, w.P) || !bigEq(d.Generator, w.G) || !bigEq(d.ServerPublic, w.Y) {
				return Failf("c28.skx", "logged DH parameters differ from the wire", "")
			}
		}
		if ls := lk.Signature; ls != nil {
			if len(ls.Raw) > 0 && !bytes.Equal(ls.Raw, w.SigData) {
				return Failf("c28.skx.sig", "logged ServerKeyExchange signature bytes differ from the wire", "log %d bytes wire %d bytes", len(ls.Raw), len(w.SigData))
			}
			if uint16(ls.Version) != version {
				return Failf("c28.skx.sig", "logged signature TLS version differs from the negotiated one", "log %04x negotiated %04x", uint16(ls.Version), version)
			}
			if !ls.Valid && co.CErr == nil && !sc.Client.SkipVerify {
				return Failf("c28.skx.sig", "signature logged as invalid on a handshake that completed", "")
			}
			if w.HasAlg {
				fam, hashes := schemeNames(w.Hash, w.Sig)
				js, _ := dig(jm, "server_key_exchange", "signature", "signature_and_hash_type").(map[string]any)
				if js == nil || ls.SigHashExtension == nil {
					return Failf("c28.skx.sigalg", "TLS 1.2 signature logged without its signature/hash algorithm", "")
				}
				sn, _ := js["signature_algorithm"].(string)
				hn, _ := js["hash_algorithm"].(string)
				o.count("probe.skx_sigalg_compared", 1)
				if fam != "" && sigFamilyOf(sn) != fam {
					return Failf("c28.skx.sigalg", "logged signature algorithm is not the one named on the wire", "wire (hash %d, sig %d) = %s, log says %q", w.Hash, w.Sig, fam, sn)
				}
				if hashes != nil && !strIn(hn, hashes) {
					return Failf("c28.skx.sigalg", "logged hash algorithm is not the one named on the wire", "wire (hash %d, sig %d) = %v, log says %q", w.Hash, w.Sig, hashes, hn)
				}
			} else if js := dig(jm, "server_key_exchange", "signature", "signature_and_hash_type"); ls.SigHashExtension != nil || js != nil {
				// before TLS 1.2 the ServerKeyExchange names no SignatureAndHashAlgorithm
				return Failf("c28.skx.sigalg", "a signature/hash algorithm is logged although the wire names none (TLS < 1.2)", "version %04x log %+v", version, ls.SigHashExtension)
			} else {
				o.count("probe.skx_no_sigalg_before_tls12", 1)
			}
		}
	}

	// ---- ClientKeyExchange
	if lk := log.ClientKeyExchange; lk != nil {
		m := firstMsg(cMsgs, hsClientKeyExchange)
		if m == nil {
			return Failf("c28.ckx", "log has a ClientKeyExchange but none is on the wire", "")
		}
		o.count("probe.ckx_compared", 1)
		r := &reader{b: m.Body}
		switch si.Kx {
		case kxRSA:
			enc := r.vec16()
			if lk.RSAParams == nil || !bytes.Equal(lk.RSAParams.EncryptedPMS, enc) || int(lk.RSAParams.Length) != len(enc) {
				return Failf("c28.ckx", "logged encrypted pre-master secret differs from the wire", "")
			}
		case kxDHERSA:
			y := r.vec16()
			if lk.DHParams == nil || !bigEq(lk.DHParams.ClientPublic, y) {
				return Failf("c28.ckx", "logged DH client public value differs from the wire", "")
			}
		default:
			pt := r.vec8()
			if lk.ECDHParams == nil || lk.ECDHParams.ClientPublic == nil {
				return Failf("c28.ckx", "logged ECDH client share missing", "")
			}
			cp := lk.ECDHParams.ClientPublic
			if len(pt) == 32 {
				if !bigEq(cp.X, pt) {
					return Failf("c28.ckx", "logged X25519 client share differs from the wire", "")
				}
			} else {
				n := (len(pt) - 1) / 2
				if len(pt) < 3 || !bigEq(cp.X, pt[1:1+n]) || !bigEq(cp.Y, pt[1+n:]) {
					return Failf("c28.ckx", "logged ECDH client point differs from the wire", "")
				}
			}
		}
	}

	// ---- session ticket
	var nst *hsMsg
	if m := firstMsg(sMsgs, hsNewSessionTicket); m != nil {
		nst = m
	}
	if lt := log.SessionTicket; lt != nil && co.CErr == nil {
		o.count("probe.ticket_compared", 1)
		if nst != nil {
			r := &reader{b: nst.Body}
			hint := uint32(r.u16())<<16 | uint32(r.u16())
			tk := r.vec16()
			if !bytes.Equal(lt.Value, tk) || lt.Length != len(tk) || lt.LifetimeHint != hint {
				return Failf("c28.ticket", "logged session ticket differs from the NewSessionTicket on the wire", "log %d bytes (length field %d, hint %d) wire %d bytes hint %d", len(lt.Value), lt.Length, lt.LifetimeHint, len(tk), hint)
			}
		} else if presentedTicket != nil && co.CState.DidResume {
			if !bytes.Equal(lt.Value, presentedTicket) {
				return Failf("c28.ticket", "logged session ticket of a resumed handshake is not the ticket presented", "log %d bytes presented %d bytes", len(lt.Value), len(presentedTicket))
			}
		}
	}

	// ---- key material and Finished
	km := log.KeyMaterial
	if km == nil || km.MasterSecret == nil || co.CErr != nil {
		return nil
	}
	ms := km.MasterSecret.Value
	if km.MasterSecret.Length != len(ms) || len(ms) != 48 {
		return Failf("c28.secrets", "logged master secret is incomplete", "length field %d value %d bytes", km.MasterSecret.Length, len(ms))
	}
	kl := parseKeyLog(keylog)
	if wch != nil {
		if want, ok := kl[hex.EncodeToString(wch.Random)]; ok {
			o.count("probe.master_secret_vs_keylog", 1)
			if !bytes.Equal(want, ms) {
				return Failf("c28.secrets", "logged master secret differs from the key log (the secret the connection used)", "")
			}
		} else {
			// the key log is a different feature; without a line the Finished computation below is the only tie
			o.count("probe.no_keylog_line", 1)
		}
	}
	_, chEMS := wch.ext(23)
	_, shEMS := wsh.ext(23)
	ems := chEMS && shEMS
	// handshake messages in the order the client hashed them
	var upToCKX, afterCKX [][]byte
	resumed := co.CState.DidResume
	var raws [][]byte
	if !resumed {
		chm := firstMsg(cMsgs, hsClientHello)
		raws = append(raws, chm.Raw)
		for _, m := range sMsgs {
			if m.Type == hsNewSessionTicket {
				break
			}
			raws = append(raws, m.Raw)
		}
		seenCH := false
		for _, m := range cMsgs {
			if m.Type == hsClientHello && !seenCH {
				seenCH = true
				continue
			}
			raws = append(raws, m.Raw)
			if m.Type == hsClientKeyExchange {
				upToCKX = append([][]byte(nil), raws...)
			}
		}
		_ = afterCKX
		if pm := km.PreMasterSecret; pm != nil && len(pm.Value) > 0 && upToCKX != nil {
			o.count("probe.master_from_premaster", 1)
			var want []byte
			if ems {
				want = refPRF(version, sha384, pm.Value, "extended master secret", refTranscriptHash(version, sha384, upToCKX), 48)
				o.count("probe.ems", 1)
			} else {
				want = refPRF(version, sha384, pm.Value, "master secret", append(append([]byte(nil), wch.Random...), wsh.Random...), 48)
			}
			if !bytes.Equal(want, ms) {
				return Failf("c28.secrets", "logged pre-master secret does not derive the logged master secret", "ems=%v version %04x", ems, version)
			}
			if pm.Length != len(pm.Value) {
				return Failf("c28.secrets", "logged pre-master secret is incomplete", "length field %d value %d bytes", pm.Length, len(pm.Value))
			}
		}
		if cf := log.ClientFinished; cf != nil {
			want := refPRF(version, sha384, ms, "client finished", refTranscriptHash(version, sha384, raws), 12)
			o.count("probe.finished_compared", 1)
			if !bytes.Equal(cf.VerifyData, want) {
				return Failf("c28.finished", "logged client Finished is not the PRF of the captured transcript under the logged master secret", "log %x reference %x", cf.VerifyData, want)
			}
			raws = append(raws, append([]byte{hsFinished, 0, 0, 12}, want...))
			if nst != nil {
				raws = append(raws, nst.Raw)
			}
			if sf := log.ServerFinished; sf != nil {
				want := refPRF(version, sha384, ms, "server finished", refTranscriptHash(version, sha384, raws), 12)
				if !bytes.Equal(sf.VerifyData, want) {
					return Failf("c28.finished", "logged server Finished is not the PRF of the captured transcript under the logged master secret", "log %x reference %x", sf.VerifyData, want)
				}
			}
		}
	} else {
		o.count("probe.resumed_log_checked", 1)
		raws = append(raws, firstMsg(cMsgs, hsClientHello).Raw)
		for _, m := range sMsgs {
			raws = append(raws, m.Raw)
		}
		if sf := log.ServerFinished; sf != nil {
			want := refPRF(version, sha384, ms, "server finished", refTranscriptHash(version, sha384, raws), 12)
			o.count("probe.finished_compared", 1)
			if !bytes.Equal(sf.VerifyData, want) {
				return Failf("c28.finished", "logged server Finished (resumed) is not the PRF of the captured transcript", "log %x reference %x", sf.VerifyData, want)
			}
			raws = append(raws, append([]byte{hsFinished, 0, 0, 12}, want...))
			if cf := log.ClientFinished; cf != nil {
				want := refPRF(version, sha384, ms, "client finished", refTranscriptHash(version, sha384, raws), 12)
				if !bytes.Equal(cf.VerifyData, want) {
					return Failf("c28.finished", "logged client Finished (resumed) is not the PRF of the captured transcript", "log %x reference %x", cf.VerifyData, want)
				}
			}
		}
	}
	// JSON view of the byte strings must carry the same bytes
	if s, ok := dig(jm, "key_material", "master_secret", "value").(string); ok {
		b, err := base64.StdEncoding.DecodeString(s)
		if err != nil || !bytes.Equal(b, ms) {
			return Failf("c28.json", "JSON master secret differs from the logged value", "")
		}
	}
	return nil
}

// c28SCTs builds n serialized SCTs (RFC 6962 3.2): the first is well-formed, the others cycle through an
// unknown version, a truncated structure and a second well-formed one.
func c28SCTs(n int, seed uint64) [][]byte {
	good := func(k byte) []byte {
		b := []byte{0} // v1
		id := make([]byte, 32)
		id[0] = k
		b = append(b, id...)
		b = append(b, 0, 0, 1, 0x5e, 0, 0, 0, k) // timestamp
		b = append(b, 0, 0)                    // no extensions
		b = append(b, 4, 3, 0, 4, 1, 2, 3, k)  // sha256/ecdsa, 4-byte signature
		return b
	}
	var out [][]byte
	for i := 0; i < n; i++ {
		switch i % 4 {
		case 0, 3:
			out = append(out, good(byte(i+1)))
		case 1:
			x := good(byte(i + 1))
			x[0] = 7 // unknown version
			out = append(out, x)
		case 2:
			out = append(out, good(byte(i + 1))[:20]) // truncated
		}
	}
	return out
}

// dig walks nested JSON objects.
func dig(m map[string]any, path ...string) any {
	var cur any = m
	for _, p := range path {
		mm, ok := cur.(map[string]any)
		if !ok {
			return nil
		}
		cur = mm[p]
	}
	return cur
}

func shrinkC28(scAny any) []any {
	sc := scAny.(*c28Scenario)
	base := &c24Scenario{Seed: sc.Seed, Client: sc.Client, Server: sc.Server, Net: sc.Net, Resume: sc.Resume, Tape: sc.Tape}
	var out []any
	for _, c := range shrinkC24(base) {
		b := c.(*c24Scenario)
		n := *sc
		n.Client, n.Server, n.Net, n.Resume, n.Tape = b.Client, b.Server, b.Net, b.Resume, b.Tape
		out = append(out, &n)
	}
	if sc.CutAt > 0 {
		c := *sc
		c.CutAt = 0
		out = append(out, &c)
	}
	if sc.Client.EMS || sc.Server.EMS {
		c := *sc
		c.Client.EMS, c.Server.EMS = false, false
		out = append(out, &c)
	}
	return out
}

func init() {
	register(&Prop{
		ID: "C28", Level: "exploration", Engine: "A (lockstep scheduler, simnet with wire capture, synctest bubble)",
		Rule: "swarm-sampled client/server configurations (as C24, plus extended master secret), optional resumed second connection, optional cut of the server stream at a seeded offset; non-trivial = a ClientHello was logged and compared; distinct = hash of the scenario",
		Real:   []string{"client handshake log construction (all MakeLog methods, key agreement logging)", "JSON encoding of the log", "KeyLogWriter"},
		Stub:   []string{"transport", "clock", "entropy", "PKI", "harness transcript parser and reference PRF"},
		Assume: []string{"for a HelloRetryRequest flow the logged ServerHello may be either the HelloRetryRequest or the final ServerHello", "algorithm names are compared by family (rsa/pkcs1v15/rsapss = RSA) and hash name; 'intrinsic' is accepted for RSA-PSS"},
		FaultKinds: []string{"fault.connection_cut", "probe.clienthello_compared", "probe.serverhello_compared", "probe.certs_compared", "probe.skx_compared", "probe.skx_sigalg_compared", "probe.ckx_compared", "probe.ticket_compared",
			"probe.clienthello_ticket_logged", "probe.master_secret_vs_keylog", "probe.master_from_premaster", "probe.finished_compared", "probe.resumed_log_checked", "probe.scts_compared", "fault.ticket_declined_by_server",
			"fault.resumed_by_reference_server_mode_1", "fault.resumed_by_reference_server_mode_2", "fault.resumed_by_reference_server_mode_3", "probe.stub_resume_refused_by_client", "probe.stub_resume_not_started", "probe.fingerprinted_client_hello", "probe.external_client_hello", "probe.serverhello_extension_ids_compared"},
		NotInjected: "adversarial wire faults are not injected (the log of a corrupted handshake is exercised for panics under C32); only a clean cut of the connection",
		Gen:         genC28, New: func() any { return &c28Scenario{} }, Exec: execC28, Shrink: shrinkC28,
		QuickRuns: 8000, ThoroughRuns: 600000,
	})
}
