package props

import (
	"encoding/json"
	"fmt"
	"os"
	"testing"
	"time"

	"github.com/zmap/zcrypto/tls"
	"verifsim/kit"
	"verifsim/vsync"
)

// C32: a real zcrypto endpoint against (a) a real peer behind a corrupting
// transport or (b) a stub peer sending seeded byte streams. No task may panic
// and, once the transport is closed or the deadline has passed, every public
// call must return.

type byteFault struct {
	Dir   int    `json:"dir"`   // 0 = client→server stream, 1 = server→client stream
	Kind  string `json:"kind"`  // flip | trunc | insert | dup
	Bound int    `json:"bound"` // >=0: index into the list of record / handshake-message boundaries of the genuine transcript
	Delta int    `json:"delta"` // offset relative to the boundary (or absolute offset selector when Bound < 0)
	Bit   int    `json:"bit"`
	Len   int    `json:"len"`
	RST   bool   `json:"rst"`
	Seed  int    `json:"seed"`
}

// hsTrunc shortens (or pads) the body of the n-th clear-text handshake message of one direction and fixes
// the handshake-header and record lengths, so that the message is well-framed but its content ends early.
type hsTrunc struct {
	Dir  int `json:"dir"`
	Msg  int `json:"msg"`  // index among the clear-text handshake records of that direction
	Keep int `json:"keep"` // < 100: selects a field boundary of the message; >= 100: selects an arbitrary body length
	Delta int `json:"delta"` // bytes kept beyond (or short of) the boundary
	Pad  int `json:"pad"`  // bytes appended instead (when > 0)
}

type hsTruncFilter struct {
	plan  []hsTrunc
	buf   []byte
	idx   int
	done  bool
	Fired int
}

func (f *hsTruncFilter) Write(p []byte) ([]byte, int) {
	if f.done {
		return p, kit.CutNone
	}
	f.buf = append(f.buf, p...)
	var out []byte
	for len(f.buf) >= 5 {
		n := int(f.buf[3])<<8 | int(f.buf[4])
		if len(f.buf) < 5+n {
			break
		}
		rec := append([]byte(nil), f.buf[:5+n]...)
		f.buf = f.buf[5+n:]
		if rec[0] != recHandshake {
			f.done = true // ChangeCipherSpec / protected records follow: nothing more in the clear
			out = append(out, rec...)
			out = append(out, f.buf...)
			f.buf = nil
			break
		}
		i := f.idx
		f.idx++
		for _, t := range f.plan {
			if t.Msg != i || n < 4 {
				continue
			}
			l := int(rec[6])<<16 | int(rec[7])<<8 | int(rec[8])
			if l != n-4 {
				continue // several messages or a fragment in this record: leave it alone
			}
			body := rec[9:]
			var nb []byte
			if t.Pad > 0 {
				nb = append(append([]byte(nil), body...), make([]byte, t.Pad)...)
			} else {
				var k int
				if t.Keep >= 100 {
					k = t.Keep % (len(body) + 1)
				} else {
					// cut at (or just after / before) a field boundary of the message
					bs := fieldBoundaries(rec[5], body)
					k = bs[t.Keep%len(bs)] + t.Delta
				}
				if k < 0 {
					k = 0
				}
				if k >= len(body) {
					continue
				}
				nb = body[:k]
			}
			hdr := []byte{rec[0], rec[1], rec[2], byte((len(nb) + 4) >> 8), byte(len(nb) + 4), rec[5], byte(len(nb) >> 16), byte(len(nb) >> 8), byte(len(nb))}
			rec = append(hdr, nb...)
			f.Fired++
		}
		out = append(out, rec...)
	}
	return out, kit.CutNone
}
func (f *hsTruncFilter) Closed() []byte { b := f.buf; f.buf = nil; return b }

// fieldBoundaries lists the offsets in a handshake message body at which a field starts or ends, by the
// message formats of RFC 5246 / 4492 / 8446 (every plausible reading is included where the format depends on the
// negotiated parameters, which a middlebox cannot know).
func fieldBoundaries(typ byte, b []byte) []int {
	set := map[int]bool{0: true, len(b): true}
	add := func(p int) bool {
		if p < 0 || p > len(b) {
			return false
		}
		set[p] = true
		return true
	}
	vec := func(p, w int) int { // returns the end of a w-byte-length-prefixed vector starting at p (or -1)
		if p < 0 || p+w > len(b) {
			return -1
		}
		l := 0
		for i := 0; i < w; i++ {
			l = l<<8 | int(b[p+i])
		}
		add(p + w)
		if !add(p + w + l) {
			return -1
		}
		return p + w + l
	}
	exts := func(p int) {
		end := vec(p, 2)
		if end < 0 {
			return
		}
		q := p + 2
		for q >= 0 && q+4 <= end {
			add(q)
			add(q + 2)
			q = vec(q+2, 2)
		}
	}
	switch typ {
	case 1: // ClientHello
		add(2)
		add(34)
		p := vec(34, 1)
		p = vec(p, 2)
		p = vec(p, 1)
		exts(p)
	case 2: // ServerHello
		add(2)
		add(34)
		p := vec(34, 1)
		if p >= 0 {
			add(p + 2)
			add(p + 3)
			exts(p + 3)
		}
	case 4: // NewSessionTicket
		add(4)
		vec(4, 2)
	case 11: // Certificate
		end := vec(0, 3)
		q := 3
		for q >= 0 && end >= 0 && q+3 <= end {
			q = vec(q, 3)
		}
	case 12: // ServerKeyExchange: ECDHE and DHE readings, with and without SignatureAndHashAlgorithm
		add(1)
		add(3)
		if p := vec(3, 1); p >= 0 {
			add(p + 2)
			vec(p, 2)
			vec(p+2, 2)
		}
		p := vec(0, 2)
		p = vec(p, 2)
		p = vec(p, 2)
		if p >= 0 {
			add(p + 2)
			vec(p, 2)
			vec(p+2, 2)
		}
	case 13: // CertificateRequest
		p := vec(0, 1)
		if q := vec(p, 2); q >= 0 {
			vec(q, 2)
		}
	case 15: // CertificateVerify
		add(2)
		vec(0, 2)
		vec(2, 2)
	case 16: // ClientKeyExchange
		vec(0, 1)
		vec(0, 2)
	case 22: // CertificateStatus
		add(1)
		vec(1, 3)
	}
	var out []int
	for p := 0; p <= len(b); p++ {
		if set[p] {
			out = append(out, p)
		}
	}
	return out
}

// chainFilter applies a, then b.
type chainFilter struct{ a, b kit.Filter }

func (c chainFilter) Write(p []byte) ([]byte, int) {
	x, cut := c.a.Write(p)
	y, cut2 := c.b.Write(x)
	if cut2 != kit.CutNone {
		cut = cut2
	}
	return y, cut
}
func (c chainFilter) Closed() []byte {
	x := c.a.Closed()
	y, _ := c.b.Write(x)
	return append(y, c.b.Closed()...)
}

type c32Scenario struct {
	Seed       uint64      `json:"seed"`
	Client     EndCfg      `json:"client"`
	Server     EndCfg      `json:"server"`
	Net        NetCfg      `json:"net"`
	Mode       string      `json:"mode"`   // corrupt | stub
	Victim     int         `json:"victim"` // stub mode: 0 = client is the real endpoint, 1 = server
	Faults     []byteFault `json:"faults,omitempty"`
	StubKind   int         `json:"stub_kind,omitempty"`
	StubLen    int         `json:"stub_len,omitempty"`
	StubPrefix int         `json:"stub_prefix,omitempty"` // kind 3: genuine bytes replayed before the garbage (selector)
	StubStall  bool        `json:"stub_stall,omitempty"`  // stub keeps the connection open instead of closing
	Deadline   bool        `json:"deadline"`              // endpoints set a 20 s deadline
	KillAtMs   int         `json:"kill_at_ms"`            // the harness closes the transport at this simulated time (0 = never)
	CertsOnly  bool        `json:"certs_only,omitempty"`
	Fingerprint bool       `json:"fingerprint,omitempty"` // the client sends a ClientFingerprintConfiguration hello
	KeyUpdateBy int        `json:"key_update_by,omitempty"` // TLS 1.3, corrupt mode: 1 = client, 2 = server sends KeyUpdate(update_requested) after its first write and drops the transport
	EPipe      bool        `json:"epipe,omitempty"`         // transports fail writes as soon as the peer has closed (net.Pipe semantics)
	HSTrunc    []hsTrunc   `json:"hs_trunc,omitempty"`      // structure-aware faults: a clear-text handshake message re-framed with a consistent, shorter length
	Skip       bool        `json:"skip_verify,omitempty"`
	HSEdits    []hsEdit    `json:"hs_edits,omitempty"` // structure-aware faults: a field inside a clear-text handshake message emptied / overwritten / dropped / repeated, lengths fixed up
	Inject     []recInject `json:"inject,omitempty"`   // well-framed short records inserted at record boundaries (also in the protected phase)
	Sweep      bool        `json:"sweep,omitempty"`    // part of a systematic offset sweep (thorough tier)
	// PSK > 0 (corrupt mode, client with session cache): a clean first connection fills the cache; the ClientHello of the
	// second, disturbed connection is re-written to offer two PSK identities with (PSK-1) as the binder arrangement
	PSK int `json:"psk,omitempty"`
	Tape       []int       `json:"tape,omitempty"`
}

func genC32(seed uint64, tier string) any {
	r := kit.NewRng(seed)
	base := genC24(r.Uint64(), tier).(*c24Scenario)
	sc := &c32Scenario{Seed: seed, Client: base.Client, Server: base.Server, Net: base.Net}
	if r.Chance(1, 3) {
		sc.Server.ClientAuth = r.Intn(5)
		if r.Chance(2, 3) {
			sc.Client.ClientCert = []string{"rsa", "p256", "ed"}[r.Intn(3)]
		}
	}
	sc.CertsOnly = r.Chance(1, 8)
	sc.Fingerprint = r.Chance(1, 7)
	sc.Skip = r.Chance(1, 4)
	sc.Deadline = r.Chance(3, 4)
	sc.EPipe = r.Chance(1, 3)
	sc.KillAtMs = []int{0, 1, 20, 200, 2000, 30000}[r.Intn(6)]
	if !sc.Deadline && sc.KillAtMs == 0 {
		sc.KillAtMs = 5000 // without deadlines only a closed transport guarantees that calls return
	}
	if r.Chance(3, 5) {
		sc.Mode = "corrupt"
		n := r.Pick([]int{0, 6, 2, 1})
		if n == 0 {
			n = 1
		}
		if r.Chance(1, 3) {
			if r.Bool() {
				n = 0
			}
			for k := r.Pick([]int{0, 5, 2}); k > 0; k-- {
				t := hsTrunc{Dir: r.Pick([]int{1, 2}), Msg: r.Pick([]int{4, 3, 6, 2, 1, 1}), Keep: r.Intn(64), Delta: []int{0, 1, 2, 3, -1}[r.Pick([]int{4, 4, 2, 1, 2})]}
				if r.Chance(1, 5) {
					t.Keep = 100 + r.Intn(1<<12)
				}
				if r.Chance(1, 6) {
					t.Pad = 1 + r.Intn(40)
				}
				sc.HSTrunc = append(sc.HSTrunc, t)
			}
		}
		if r.Chance(1, 8) {
			sc.PSK = 1 + r.Intn(4)
			sc.Client.Cache, sc.Client.NoTickets, sc.Server.NoTickets = true, false, false
			sc.Client.MinVersion, sc.Client.MaxVersion, sc.Server.MinVersion, sc.Server.MaxVersion = 0, 0, 0, 0
			sc.Client.Suites, sc.Server.Suites, sc.Client.ForceSuites, sc.Fingerprint = nil, nil, false, false
			if r.Bool() {
				n = 0
			}
			if r.Chance(1, 3) {
				// the PSK-offering ClientHello is answered by a HelloRetryRequest whose cipher suite a man in the middle
				// replaces by another one the client offered (possibly with another hash than the ticket's)
				sc.Client.Curves, sc.Server.Curves = []uint16{29, 23}, []uint16{23}
				sc.HSEdits = append(sc.HSEdits, hsEdit{Dir: 1, Type: 2, Op: "set", Ext: -2, Sel: 1, Val: []int{0x1302, 0x1301, 0x1303}[r.Intn(3)]})
			}
		}
		if r.Chance(1, 8) {
			sc.KeyUpdateBy = 1 + r.Intn(2)
			sc.EPipe = r.Chance(3, 4)
			if r.Chance(2, 3) {
				n = 0
			}
		}
		if r.Chance(1, 3) {
			if r.Bool() {
				n = 0
			}
			if r.Chance(1, 3) {
				// make a HelloRetryRequest flow likely: the client's only key share is for a group the server does not accept
				sc.Client.Curves, sc.Server.Curves = []uint16{29, 23}, []uint16{23}
				if r.Bool() {
					sc.Client.Curves, sc.Server.Curves = []uint16{23, 24, 29}, []uint16{29, 24}
				}
				sc.Client.MaxVersion, sc.Server.MaxVersion, sc.Client.MinVersion, sc.Server.MinVersion = 0, 0, 0, 0
			}
			if len(sc.Client.Curves) == 0 && sc.PSK == 0 && r.Chance(1, 8) {
				// a client that lists a TLS-1.3-only hybrid group ends up on TLS 1.2 ECDHE, and the ServerKeyExchange names
				// that very group (which the client offered but cannot compute below TLS 1.3)
				sc.Client.Curves = []uint16{4588, 29, 23}
				sc.Client.MinVersion, sc.Client.MaxVersion, sc.Server.MinVersion, sc.Server.MaxVersion = 0, vTLS12, 0, vTLS12
				sc.Client.Suites, sc.Server.Suites, sc.Client.ForceSuites = nil, nil, false
				sc.HSEdits = append(sc.HSEdits, hsEdit{Dir: 1, Type: 12, Op: "set", Ext: -2, Sel: 1, Val: 4588})
			}
			if len(sc.Client.Curves) == 0 && r.Chance(1, 2) {
				// pin one (version, suite) pair: every key-exchange method meets the edits
				pr := c25Pairs[r.Intn(len(c25Pairs))]
				sc.Client.MinVersion, sc.Client.MaxVersion, sc.Server.MinVersion, sc.Server.MaxVersion = pr[0], pr[0], pr[0], pr[0]
				sc.Client.Suites, sc.Server.Suites, sc.Client.ForceSuites = []uint16{pr[1]}, []uint16{pr[1]}, true
				sc.Server.KeyKind = keyForSuite(r, suiteByID[pr[1]], pr[0])
				sc.Skip = r.Bool()
			}
			for k := r.Pick([]int{0, 5, 2}); k > 0; k-- {
				e := hsEdit{Dir: r.Intn(2), Msg: r.Pick([]int{5, 4, 3, 2, 1}), Op: []string{"empty", "empty", "shrink", "set", "set", "dropext", "dupext", "setvec", "echo_sid", "sigalg"}[r.Intn(10)], Ext: -1, Sel: r.Intn(1 << 10)}
				if e.Op == "setvec" {
					e.Data = r.Bytes([]int{1, 2, 3, 4, 7, 8, 16, 31, 32, 33, 64, 65, 255, 256}[r.Intn(14)])
					if r.Chance(1, 4) {
						e.Data = make([]byte, len(e.Data)) // all zero
					}
				}
				if e.Op == "echo_sid" {
					e.Dir, e.Msg = 1, 0
				} else if e.Op == "sigalg" {
					e.Dir, e.Type = 1, 12
					if r.Chance(1, 4) {
						e.Dir, e.Type = 0, 15
					}
				} else if r.Chance(1, 2) {
					// aim at a message type rather than a position in the flight
					if e.Dir == 0 {
						e.Type = []int{1, 11, 15, 16}[r.Intn(4)]
					} else {
						e.Type = []int{2, 4, 11, 12, 12, 13, 22}[r.Intn(7)]
					}
				}
				if e.Op == "set" && r.Chance(1, 2) {
					e.Val = r.Intn(10) // small code points: other members of the same enumeration
				}
				if r.Chance(1, 2) {
					e.Ext = []int{51, 43, 41, 13, 10, 16, 0, 45, 11, 5, 0xff01, 35}[r.Intn(12)]
				}
				e.Val = []int{0, 0, 1, 0xff, 0xffff, 0x0304, 0x0303, 7, 0xee, r.Intn(1 << 16), 0x1301, 0x1302, 0x1303, 0xc02f, 0x002f}[r.Intn(15)]
				sc.HSEdits = append(sc.HSEdits, e)
			}
		}
		if r.Chance(1, 3) {
			if r.Bool() {
				n = 0
			}
			if r.Chance(2, 3) {
				// pin one (version, suite) pair so that every record-protection class meets the injected records
				pr := c25Pairs[r.Intn(len(c25Pairs))]
				sc.Client.MinVersion, sc.Client.MaxVersion, sc.Server.MinVersion, sc.Server.MaxVersion = pr[0], pr[0], pr[0], pr[0]
				sc.Client.Suites, sc.Server.Suites, sc.Client.ForceSuites = []uint16{pr[1]}, []uint16{pr[1]}, true
				sc.Server.KeyKind = keyForSuite(r, suiteByID[pr[1]], pr[0])
				sc.Client.Curves, sc.Server.Curves = nil, nil
			}
			for k := r.Pick([]int{0, 5, 2}); k > 0; k-- {
				sc.Inject = append(sc.Inject, recInject{Dir: r.Intn(2), At: r.Pick([]int{1, 1, 1, 2, 4, 4, 4, 3, 2, 1, 1, 1}), Type: []int{23, 23, 22, 21, 20, 24, r.Intn(256)}[r.Intn(7)],
					Len: []int{0, 0, 1, 2, 3, 5, 7, 8, 12, 15, 16, 17, 20, 24, 31, 32, 33, 47, 48, 49, 64}[r.Intn(21)], Seed: r.Intn(1 << 20)})
			}
		}
		kinds := []string{"flip", "flip", "flip", "trunc", "insert", "dup"}
		for i := 0; i < n; i++ {
			f := byteFault{Dir: r.Intn(2), Kind: kinds[r.Intn(len(kinds))], Bit: r.Intn(8), Len: 1 + r.Intn(40), RST: r.Bool(), Seed: r.Intn(1 << 20)}
			if r.Chance(2, 3) {
				f.Bound = r.Intn(64)
				f.Delta = r.Range(-2, 9)
			} else {
				f.Bound = -1
				f.Delta = r.Intn(1 << 20)
			}
			sc.Faults = append(sc.Faults, f)
		}
	} else {
		sc.Mode = "stub"
		sc.Victim = r.Intn(2)
		sc.StubKind = r.Intn(4)
		sc.StubLen = []int{1, 4, 5, 6, 50, 300, 3000, 20000}[r.Intn(8)]
		sc.StubPrefix = r.Intn(1 << 16)
		sc.StubStall = r.Chance(1, 3)
		if sc.StubStall && !sc.Deadline && sc.KillAtMs == 0 {
			sc.KillAtMs = 3000
		}
	}
	return sc
}

// genC32At: every second run of the thorough tier belongs to a systematic sweep. 8192 consecutive sweep runs
// share one configuration and place a single fault at offsets 0..4095 of the client→server stream and then of
// the server→client stream of that configuration's genuine transcript (a bit flip with a rotating bit; at every
// 16th offset a truncation, at every 16th+8 an insertion instead).
func genC32At(base uint64, i int, tier string) any {
	if tier != "thorough" || i%2 == 0 {
		return nil
	}
	k := i / 2
	cfg, pos := k/8192, k%8192
	sc := genC32(seedFor(base^0xc32c32, cfg), tier).(*c32Scenario)
	sc.Mode, sc.Faults, sc.HSTrunc, sc.HSEdits, sc.Inject, sc.KeyUpdateBy = "corrupt", nil, nil, nil, nil, 0
	sc.StubKind, sc.StubLen, sc.StubPrefix, sc.StubStall = 0, 0, 0, false
	sc.Deadline = true
	off := pos % 4096
	f := byteFault{Dir: pos / 4096, Kind: "flip", Bound: -1, Delta: off, Bit: (off*7 + cfg) % 8, Len: 1 + off%23, RST: off%32 == 0, Seed: off}
	switch off % 16 {
	case 0:
		f.Kind = "trunc"
	case 8:
		f.Kind = "insert"
	}
	sc.Faults = []byteFault{f}
	sc.Sweep = true
	return sc
}

// byteFilter applies byteFaults at absolute offsets of one direction's stream.
type byteFilter struct {
	faults []resolvedFault
	off    int
	Fired  []string
}

type resolvedFault struct {
	At   int
	F    byteFault
	done bool
}

func (b *byteFilter) Write(p []byte) ([]byte, int) {
	var out []byte
	for i, c := range p {
		pos := b.off + i
		emit := true
		for k := range b.faults {
			rf := &b.faults[k]
			if rf.done || rf.At != pos {
				continue
			}
			rf.done = true
			b.Fired = append(b.Fired, rf.F.Kind)
			switch rf.F.Kind {
			case "flip":
				c ^= 1 << uint(rf.F.Bit&7)
			case "insert":
				g := make([]byte, rf.F.Len)
				kit.NewRng(uint64(rf.F.Seed)).Fill(g)
				out = append(out, g...)
			case "dup":
				n := rf.F.Len
				if n > len(out) {
					n = len(out)
				}
				out = append(out, out[len(out)-n:]...)
			case "trunc":
				b.off += len(p)
				cut := kit.CutFIN
				if rf.F.RST {
					cut = kit.CutRST
				}
				return out, cut
			}
		}
		if emit {
			out = append(out, c)
		}
	}
	b.off += len(p)
	return out, kit.CutNone
}

func (b *byteFilter) Closed() []byte { return nil }

// boundaries lists the offsets of record headers and of plaintext handshake
// message headers in a captured stream.
func boundaries(stream []byte) []int {
	recs, _ := parseRecords(stream)
	var out []int
	for _, r := range recs {
		out = append(out, r.Off)
	}
	// handshake message starts inside plaintext handshake records
	_, n := plaintextHandshake(recs)
	for _, r := range recs[:n] {
		if r.Type != recHandshake {
			continue
		}
		// only exact when a message starts at the record start; good enough as a bias
		out = append(out, r.Off+5, r.Off+5+4)
		b := r.Body
		off := 0
		for len(b)-off >= 4 {
			l := int(b[off+1])<<16 | int(b[off+2])<<8 | int(b[off+3])
			off += 4 + l
			if off < len(b) {
				out = append(out, r.Off+5+off)
			}
		}
	}
	if len(out) == 0 {
		out = []int{0}
	}
	return out
}

type c32End struct {
	keyUpdate bool // after its first write this endpoint sends KeyUpdate(update_requested) and drops the transport (TLS 1.3)
	sentKeyUpdate bool
	conn   *tls.Conn
	net    *kit.Conn
	hsErr  error
	calls  int
	logLen int
}

// driveEndpoint issues every public call the property names on one endpoint.
func driveEndpoint(s *kit.Sim, e *c32End, isClient bool, deadline bool) {
	c := e.conn
	if deadline {
		c.SetDeadline(s.Now().Add(20 * time.Second))
	}
	e.hsErr = c.Handshake()
	e.calls++
	_ = c.ConnectionState()
	if b, err := json.Marshal(c.GetHandshakeLog()); err == nil {
		e.logLen = len(b)
	}
	e.calls++
	if e.hsErr == nil {
		buf := make([]byte, 512)
		ku := func() {
			if e.keyUpdate && c.ConnectionState().Version == vTLS13 {
				// a peer that asks for a key update and disappears: the reply cannot be written
				c.WriteRecord(22, []byte{24, 0, 0, 1, 1})
				e.net.Kill(false)
				e.sentKeyUpdate = true
			}
		}
		if isClient {
			c.Write([]byte("GET / HTTP/1.0\r\n\r\n"))
			e.calls++
			ku()
			c.Read(buf)
			e.calls++
		} else {
			c.Read(buf)
			e.calls++
			c.Write([]byte("HTTP/1.0 200 OK\r\n\r\nhello"))
			e.calls++
			ku()
		}
		c.Read(buf)
		e.calls++
	} else {
		// calls after a failed handshake must return too
		c.Write([]byte("x"))
		c.Read(make([]byte, 8))
		e.calls += 2
	}
	_ = c.ConnectionState()
	json.Marshal(c.GetHandshakeLog())
	c.OCSPResponse()
	if isClient {
		c.VerifyHostname(serverName)
	}
	c.CloseWrite()
	c.Close()
	c.Close()
	e.calls++
}

func c32Configs(sc *c32Scenario, run *simRun) (*tls.Config, *tls.Config) {
	s := run.S
	scfg := serverConfig(sc.Server, s, run.R.Derive("srv-rand"))
	ccfg := clientConfig(sc.Client, s, run.R.Derive("cli-rand"))
	ccfg.CertsOnly = sc.CertsOnly
	ccfg.InsecureSkipVerify = sc.Skip
	if sc.Fingerprint {
		suites := sc.Client.Suites
		if len(suites) == 0 {
			suites = []uint16{0xc02f, 0xc02b, 0xc013, 0xc009, 0x009c, 0x002f, 0x0035}
		}
		var legacy []uint16
		for _, id := range suites {
			if s := suiteByID[id]; s != nil && s.Kx != kxTLS13 {
				legacy = append(legacy, id)
			}
		}
		if len(legacy) == 0 {
			legacy = []uint16{0xc02f, 0x002f}
		}
		ccfg.ForceSuites = true
		ccfg.ClientFingerprintConfiguration = &tls.ClientFingerprintConfiguration{
			HandshakeVersion:   vTLS12,
			InsertTimestamp:    sc.Seed%2 == 0,
			CipherSuites:       legacy,
			CompressionMethods: []uint8{0},
			Extensions: []tls.ClientExtension{&tls.SNIExtension{Autopopulate: true}, &tls.SupportedCurvesExtension{Curves: []tls.CurveID{tls.X25519, tls.CurveP256}},
				&tls.PointFormatExtension{Formats: []uint8{0}}, &tls.SignatureAlgorithmExtension{SignatureAndHashes: []uint16{0x0401, 0x0501, 0x0201}},
				&tls.SessionTicketExtension{Autopopulate: true}, &tls.StatusRequestExtension{}, &tls.SecureRenegotiationExtension{}},
		}
	}
	if sc.Client.Cache {
		ccfg.ClientSessionCache = tls.NewLRUClientSessionCache(2)
	}
	return ccfg, scfg
}

// c32Warm (PSK scenarios): a clean first connection over the same simulator fills a harness-owned session cache; it
// returns the rewriter for the second connection's ClientHello (nil when there is no TLS 1.3 session to offer).
func c32Warm(sc *c32Scenario, run *simRun, ccfg, scfg *tls.Config) *pskRewriter {
	if sc.PSK == 0 {
		return nil
	}
	cache := &simCache{cur: map[string]*tls.ClientSessionState{}}
	ccfg.ClientSessionCache = cache
	startConn(run, "warm", ccfg, scfg, NetCfg{}, nil)
	run.S.Run()
	cur := cache.cur[serverName]
	if cur == nil {
		return nil
	}
	v, suite := tls.VerifSessionParams(cur)
	if v != vTLS13 {
		return nil
	}
	secret, nonce := tls.VerifSessionSecret(cur)
	return &pskRewriter{Suite: suite, Secret: secret, Nonce: nonce, Extra: kit.NewRng(sc.Seed ^ 0x9517).Bytes(60 + int(sc.Seed%100)), BinderMode: sc.PSK - 1}
}

// genuineStreams runs the scenario without faults and returns both directions'
// byte streams (the simulation is deterministic, so the faulted run reproduces
// them exactly up to the first fault).
func genuineStreams(sc *c32Scenario) (c2s, s2c []byte) {
	run := newSimRun(sc.Seed, nil, false)
	s := run.S
	vsync.Sched = simSched{s}
	vsync.Mode = vsync.ModeLockstep
	defer func() { vsync.Mode = vsync.ModeReal; vsync.Sched = nil }()
	ccfg, scfg := c32Configs(sc, run)
	c32Warm(sc, run, ccfg, scfg)
	cn, sn := s.Pipe("c", "s", sc.Net.params(), sc.Net.params())
	ce := &c32End{conn: tls.Client(cn, ccfg), net: cn}
	se := &c32End{conn: tls.Server(sn, scfg), net: sn}
	s.Go("client", func() { driveEndpoint(s, ce, true, true) })
	s.Go("server", func() { driveEndpoint(s, se, false, true) })
	s.Run()
	return append([]byte(nil), cn.SentStream()...), append([]byte(nil), sn.SentStream()...)
}

func stubStream(sc *c32Scenario, genuine []byte) []byte {
	r := kit.NewRng(sc.Seed ^ 0x5bd1e995)
	n := sc.StubLen
	switch sc.StubKind {
	case 0:
		return r.Bytes(n)
	case 1: // valid record headers, random bodies
		var out []byte
		for len(out) < n {
			typ := []byte{20, 21, 22, 23, 22, 22, byte(r.Intn(256))}[r.Intn(7)]
			vers := []uint16{0x0301, 0x0302, 0x0303, 0x0304, 0x0300, uint16(r.Intn(65536))}[r.Intn(6)]
			l := []int{0, 1, 2, 4, 40, 300, 16384, 16385, 18433}[r.Intn(9)]
			if r.Chance(1, 2) {
				l = r.Intn(200)
			}
			out = append(out, typ, byte(vers>>8), byte(vers), byte(l>>8), byte(l))
			body := r.Bytes(l)
			if r.Chance(1, 5) && l > 0 {
				body = body[:r.Intn(l)] // announce more than is sent
			}
			out = append(out, body...)
		}
		return out
	case 2: // handshake records with consistent handshake headers and random bodies
		var out []byte
		for len(out) < n {
			mt := []byte{1, 2, 4, 8, 11, 12, 13, 14, 15, 16, 20, 22, 24, 0, byte(r.Intn(256))}[r.Intn(15)]
			l := []int{0, 1, 2, 3, 4, 34, 38, 70, 100, 500, 3000}[r.Intn(11)]
			body := r.Bytes(l)
			if r.Chance(1, 2) && l >= 2 {
				body[0], body[1] = 3, byte(r.Intn(5)) // plausible version
			}
			hl := l
			if r.Chance(1, 6) {
				hl = r.Intn(1 << 24) // lying handshake length
			}
			msg := append([]byte{mt, byte(hl >> 16), byte(hl >> 8), byte(hl)}, body...)
			vers := []uint16{0x0301, 0x0303}[r.Intn(2)]
			if r.Chance(1, 4) && len(msg) > 3 {
				// split the message over two records
				k := 1 + r.Intn(len(msg)-1)
				out = append(out, 22, byte(vers>>8), byte(vers), byte(k>>8), byte(k))
				out = append(out, msg[:k]...)
				msg = msg[k:]
			}
			out = append(out, 22, byte(vers>>8), byte(vers), byte(len(msg)>>8), byte(len(msg)))
			out = append(out, msg...)
		}
		return out
	default: // genuine prefix followed by garbage
		k := 0
		if len(genuine) > 0 {
			k = sc.StubPrefix % (len(genuine) + 1)
		}
		return append(append([]byte(nil), genuine[:k]...), r.Bytes(n)...)
	}
}

func execC32(t *testing.T, scAny any, keepLog bool) *Outcome {
	sc := scAny.(*c32Scenario)
	o := &Outcome{Counters: map[string]int{}}
	kit.Bubble(t, func() {
		var gc2s, gs2c []byte
		needGenuine := sc.Mode == "corrupt" || sc.StubKind == 3
		if needGenuine {
			gc2s, gs2c = genuineStreams(sc)
		}
		run := newSimRun(sc.Seed, sc.Tape, keepLog)
		s := run.S
		// package tls is built with the lock shim: a lock that is never released shows up as a blocked task
		vsync.Sched = simSched{s}
		vsync.Mode = vsync.ModeLockstep
		vsync.LockOps = 0
		defer func() { vsync.Mode = vsync.ModeReal; vsync.Sched = nil }()
		okHSPossible := true
		ccfg, scfg := c32Configs(sc, run)
		pskRW := c32Warm(sc, run, ccfg, scfg)
		cn, sn := s.Pipe("c", "s", sc.Net.params(), sc.Net.params())
		cn.EPipe, sn.EPipe = sc.EPipe, sc.EPipe
		var ends []*c32End
		fired := 0
		var filters [2]*byteFilter
		var hsFilters [2]*hsTruncFilter
		var editFilters [2]*hsEditFilter
		var injFilters [2]*recInjectFilter
		if sc.Mode == "corrupt" {
			streams := [2][]byte{gc2s, gs2c}
			for d := 0; d < 2; d++ {
				bf := &byteFilter{}
				bs := boundaries(streams[d])
				for _, f := range sc.Faults {
					if f.Dir != d || len(streams[d]) == 0 {
						continue
					}
					at := 0
					if f.Bound >= 0 {
						at = bs[f.Bound%len(bs)] + f.Delta
					} else {
						at = f.Delta % len(streams[d])
					}
					if at < 0 {
						at = 0
					}
					bf.faults = append(bf.faults, resolvedFault{At: at, F: f})
				}
				filters[d] = bf
			}
			var hsf [2]*hsTruncFilter
			for d := 0; d < 2; d++ {
				hsf[d] = &hsTruncFilter{}
				for _, t := range sc.HSTrunc {
					if t.Dir == d {
						hsf[d].plan = append(hsf[d].plan, t)
					}
				}
			}
			hsFilters = hsf
			for d := 0; d < 2; d++ {
				editFilters[d], injFilters[d] = &hsEditFilter{}, &recInjectFilter{}
				for _, e := range sc.HSEdits {
					if e.Op == "echo_sid" {
						if ch, err := firstClientHello(gc2s); err == nil {
							e.Data = ch.SessionID
						}
					}
					if e.Dir == d {
						editFilters[d].plan = append(editFilters[d].plan, e)
					}
				}
				for _, in := range sc.Inject {
					if in.Dir == d {
						injFilters[d].plan = append(injFilters[d].plan, in)
					}
				}
			}
			var c2s kit.Filter = chainFilter{chainFilter{hsf[0], editFilters[0]}, chainFilter{filters[0], injFilters[0]}}
			if pskRW != nil {
				c2s = chainFilter{pskRW, c2s}
			}
			cn.SetFilter(c2s)
			sn.SetFilter(chainFilter{chainFilter{hsf[1], editFilters[1]}, chainFilter{filters[1], injFilters[1]}})
			ce := &c32End{conn: tls.Client(cn, ccfg), net: cn, keyUpdate: sc.KeyUpdateBy == 1}
			se := &c32End{conn: tls.Server(sn, scfg), net: sn, keyUpdate: sc.KeyUpdateBy == 2}
			ends = []*c32End{ce, se}
			s.Go("client", func() { driveEndpoint(s, ce, true, sc.Deadline) })
			s.Go("server", func() { driveEndpoint(s, se, false, sc.Deadline) })
		} else {
			var victim *c32End
			var stubNet *kit.Conn
			var data []byte
			if sc.Victim == 0 {
				victim = &c32End{conn: tls.Client(cn, ccfg), net: cn}
				stubNet = sn
				data = stubStream(sc, gs2c)
				s.Go("client", func() { driveEndpoint(s, victim, true, sc.Deadline) })
			} else {
				victim = &c32End{conn: tls.Server(sn, scfg), net: sn}
				stubNet = cn
				data = stubStream(sc, gc2s)
				s.Go("server", func() { driveEndpoint(s, victim, false, sc.Deadline) })
			}
			ends = []*c32End{victim}
			o.count(fmt.Sprintf("fault.stub_kind_%d", sc.StubKind), 1)
			s.Go("stub", func() {
				if sc.Victim == 0 {
					// a client speaks first: wait for its first bytes
					stubNet.SetReadDeadline(s.Now().Add(2 * time.Second))
					stubNet.Read(make([]byte, 4096))
				}
				stubNet.Write(data)
				if sc.StubStall {
					o.count("fault.stub_stall", 1)
					// keep reading and discarding until the victim or the harness closes
					stubNet.SetReadDeadline(time.Time{})
					buf := make([]byte, 4096)
					for {
						if _, err := stubNet.Read(buf); err != nil {
							break
						}
					}
				}
				stubNet.Close()
			})
		}
		if sc.KillAtMs > 0 {
			s.After(time.Duration(sc.KillAtMs)*time.Millisecond, func() {
				o.count("fault.transport_killed", 1)
				cn.Kill(false)
				sn.Kill(false)
			})
		}
		s.Run()
		if pskRW != nil && pskRW.Fired {
			o.count(fmt.Sprintf("fault.two_psk_identities_binder_mode_%d", pskRW.BinderMode), 1)
			fired++
		}
		for d := 0; d < 2; d++ {
			if filters[d] != nil {
				for _, k := range filters[d].Fired {
					o.count("fault.byte_"+k, 1)
					fired++
				}
			}
			if hsFilters[d] != nil && hsFilters[d].Fired > 0 {
				o.count("fault.handshake_message_reframed", hsFilters[d].Fired)
				fired += hsFilters[d].Fired
			}
			if editFilters[d] != nil {
				for _, k := range editFilters[d].Fired {
					o.count("fault.handshake_field_"+k, 1)
					fired++
				}
			}
			if injFilters[d] != nil && injFilters[d].Fired > 0 {
				o.count("fault.record_injected", injFilters[d].Fired)
				fired += injFilters[d].Fired
			}
		}
		if vsync.LockOps == 0 && okHSPossible {
			fmt.Println("HARNESS-ERROR C32 needs the sync shim overlay (bin/check builds it): a leaked lock could not be detected otherwise")
			os.Exit(2)
		}
		for _, p := range s.Panics() {
			o.Fail = Failf("c32.panic", panicSite(p.Stack), "task %s panicked: %v\n%s", p.Name, p.PanicVal, p.Stack)
		}
		if o.Fail == nil && len(s.Deadlock) > 0 {
			o.Fail = Failf("c32.blocked", "call still blocked with the transport closed and no event pending", "blocked: %v", s.Deadlock)
		}
		if o.Fail == nil && (s.StepCapHit || s.TimeCapHit) {
			o.Fail = Failf("c32.noreturn", "calls did not return within the step/time budget", "stepcap=%v timecap=%v steps=%d", s.StepCapHit, s.TimeCapHit, s.Steps)
		}
		okHS := 0
		for _, e := range ends {
			if e.sentKeyUpdate {
				o.count("fault.key_update_then_transport_closed", 1)
			}
			if e.hsErr == nil {
				okHS++
			}
			if e.logLen > 0 {
				o.count("probe.partial_log_marshalled", 1)
			}
		}
		o.count(fmt.Sprintf("probe.handshakes_ok_%d", okHS), 1)
		finishOutcome(o, s)
		h := kit.NewHash64()
		h.WriteU64(s.TapeHash())
		b, _ := json.Marshal(sc)
		h.Write(b)
		o.Distinct = h.Sum()
		o.Nontrivial = fired > 0 || sc.Mode == "stub"
		if sc.Sweep {
			o.count("probe.sweep_runs", 1)
			if fired > 0 {
				o.count("probe.sweep_runs_fault_inside_transcript", 1)
			}
		}
		if usesSystemEntropy(sc.Client.Curves, sc.Server.Curves) {
			o.count("probe.runs_reaching_system_entropy_mlkem", 1)
			hh := kit.NewHash64()
			hh.Write(b)
			hh.WriteString(fmt.Sprint(o.Fail == nil))
			o.LogHash = hh.Sum()
		}
	})
	return o
}

// panicSite extracts the innermost /repo frame of a panic stack, used as the
// finding signature.
func panicSite(stack string) string {
	lines := splitLines(stack)
	for i, l := range lines {
		if len(l) > 0 && l[0] == '\t' && containsStr(l, kit.RepoPrefix()) {
			// the function name is on the previous line
			fn := ""
			if i > 0 {
				fn = lines[i-1]
			}
			f := l[1:]
			if k := indexStr(f, " +0x"); k >= 0 {
				f = f[:k]
			}
			// drop the argument list (pointer values differ from run to run)
			for k := len(fn) - 1; k >= 0; k-- {
				if fn[k] == '(' {
					if k > 0 && fn[k-1] != ')' || k == 0 {
						fn = fn[:k]
					}
					break
				}
			}
			if k := indexStr(f, kit.RepoPrefix()); k >= 0 {
				f = f[k+len(kit.RepoPrefix()):] // path relative to the tree: the signature does not depend on where the tree lives
			}
			return "panic at " + f + " in " + fn
		}
	}
	return "panic"
}

func splitLines(s string) []string {
	var out []string
	cur := 0
	for i := 0; i < len(s); i++ {
		if s[i] == '\n' {
			out = append(out, s[cur:i])
			cur = i + 1
		}
	}
	return append(out, s[cur:])
}
func indexStr(s, sub string) int {
	for i := 0; i+len(sub) <= len(s); i++ {
		if s[i:i+len(sub)] == sub {
			return i
		}
	}
	return -1
}
func containsStr(s, sub string) bool { return indexStr(s, sub) >= 0 }

func shrinkC32(scAny any) []any {
	sc := scAny.(*c32Scenario)
	var out []any
	cp := func() *c32Scenario {
		c := *sc
		c.Faults = append([]byteFault(nil), sc.Faults...)
		return &c
	}
	for i := range sc.HSEdits {
		c := cp()
		c.HSEdits = dropIndex(append([]hsEdit(nil), sc.HSEdits...), i)
		out = append(out, c)
	}
	for i := range sc.Inject {
		c := cp()
		c.Inject = dropIndex(append([]recInject(nil), sc.Inject...), i)
		out = append(out, c)
	}
	for i := range sc.HSTrunc {
		c := cp()
		c.HSTrunc = dropIndex(append([]hsTrunc(nil), sc.HSTrunc...), i)
		out = append(out, c)
	}
	for i := range sc.Faults {
		if len(sc.Faults) > 1 || len(sc.HSEdits)+len(sc.Inject)+len(sc.HSTrunc) > 0 {
			c := cp()
			c.Faults = dropIndex(c.Faults, i)
			out = append(out, c)
		}
	}
	if sc.Net.SegMode != 0 || sc.Net.ShortReads || sc.Net.LatMaxUs != 0 {
		c := cp()
		c.Net = NetCfg{}
		out = append(out, c)
	}
	if sc.StubLen > 1 {
		c := cp()
		c.StubLen = sc.StubLen / 2
		out = append(out, c)
	}
	for _, f := range []func(c *c32Scenario){
		func(c *c32Scenario) { c.Client.Suites, c.Client.ForceSuites = nil, false },
		func(c *c32Scenario) { c.Server.Suites = nil },
		func(c *c32Scenario) { c.Client.ALPN, c.Server.ALPN = nil, nil },
		func(c *c32Scenario) { c.Client.Curves, c.Server.Curves = nil, nil },
		func(c *c32Scenario) { c.Client.MinVersion, c.Client.MaxVersion = 0, 0 },
		func(c *c32Scenario) { c.Server.MinVersion, c.Server.MaxVersion = 0, 0 },
		func(c *c32Scenario) { c.Server.ClientAuth = 0; c.Client.ClientCert = "" },
		func(c *c32Scenario) { c.CertsOnly = false },
		func(c *c32Scenario) { c.Client.Cache = false },
		func(c *c32Scenario) { c.KillAtMs = 0; c.Deadline = true },
		func(c *c32Scenario) { c.StubStall = false },
		func(c *c32Scenario) { c.Tape = nil },
	} {
		c := cp()
		f(c)
		out = append(out, c)
	}
	return out
}

func init() {
	register(&Prop{
		ID: "C32", Level: "fault_enumeration", Engine: "A (lockstep scheduler, simnet with byte-level corrupting filter or stub peer, synctest bubble)",
		Rule: "thorough tier: every second run belongs to a systematic sweep (one fault at each of the first 4096 offsets of both directions of a configuration's genuine transcript, 8192 runs per configuration); otherwise seeded configuration x (corrupting transport with 1-3 byte-level faults placed relative to record/handshake-message boundaries of the genuine transcript, or a stub peer sending random / framed / half-genuine byte streams) x deadline or transport kill; non-trivial = a fault fired or a stub stream was sent; distinct = hash of (scenario, schedule tape)",
		Real:   []string{"tls.Client and tls.Server: Handshake, Read, Write, ConnectionState, GetHandshakeLog + JSON marshal, OCSPResponse, VerifyHostname, CloseWrite, Close on partial and failed handshakes"},
		Stub:   []string{"transport", "clock", "entropy", "stub peer in stub mode"},
		Assume: []string{"a call that returns because its deadline expired has returned"},
		FaultKinds: []string{"fault.byte_flip", "fault.byte_trunc", "fault.byte_insert", "fault.byte_dup", "fault.stub_kind_0", "fault.stub_kind_1", "fault.stub_kind_2", "fault.stub_kind_3", "fault.stub_stall", "fault.transport_killed", "fault.handshake_message_reframed", "fault.key_update_then_transport_closed",
			"fault.handshake_field_empty", "fault.handshake_field_shrink", "fault.two_psk_identities_binder_mode_0", "fault.two_psk_identities_binder_mode_1", "fault.two_psk_identities_binder_mode_2", "fault.two_psk_identities_binder_mode_3", "fault.handshake_field_set", "fault.handshake_field_setvec", "fault.handshake_field_echo_sid", "fault.handshake_field_sigalg", "fault.handshake_field_dropext", "fault.handshake_field_dupext", "fault.record_injected",
			"net.read_deadline_expired", "probe.partial_log_marshalled", "probe.sweep_runs", "probe.sweep_runs_fault_inside_transcript", "probe.handshakes_ok_0", "probe.handshakes_ok_1", "probe.handshakes_ok_2"},
		NotInjected: "no storage or crash-restart; allocation failure has no seam in Go",
		GenAt:       genC32At,
		Gen:         genC32, New: func() any { return &c32Scenario{} }, Exec: execC32, Shrink: shrinkC32,
		QuickRuns: 48000, ThoroughRuns: 3000000,
	})
}
