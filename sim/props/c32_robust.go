package props

import (
	"encoding/json"
	"fmt"
	"testing"
	"time"

	"github.com/zmap/zcrypto/tls"
	"verifsim/kit"
)

// C32: a real zcrypto endpoint against (a) a real peer behind a corrupting
// transport or (b) a stub peer sending seeded byte streams. No task may panic
// and, once the transport is closed or the deadline has passed, every public
// call must return.

type byteFault struct {
	Dir   int    `json:"dir"`   // 0 = client→server stream, 1 = server→client stream
	Kind  string `json:"kind"`  // flip | trunc | insert | dup
	Bound int    `json:"bound"` // >=0: index into the list of record / handshake-message boundaries of the genuine transcript
	Delta int    `json:"delta"` // offset relative to the boundary (or absolute offset selector when Bound < 0)
	Bit   int    `json:"bit"`
	Len   int    `json:"len"`
	RST   bool   `json:"rst"`
	Seed  int    `json:"seed"`
}

type c32Scenario struct {
	Seed       uint64      `json:"seed"`
	Client     EndCfg      `json:"client"`
	Server     EndCfg      `json:"server"`
	Net        NetCfg      `json:"net"`
	Mode       string      `json:"mode"`   // corrupt | stub
	Victim     int         `json:"victim"` // stub mode: 0 = client is the real endpoint, 1 = server
	Faults     []byteFault `json:"faults,omitempty"`
	StubKind   int         `json:"stub_kind,omitempty"`
	StubLen    int         `json:"stub_len,omitempty"`
	StubPrefix int         `json:"stub_prefix,omitempty"` // kind 3: genuine bytes replayed before the garbage (selector)
	StubStall  bool        `json:"stub_stall,omitempty"`  // stub keeps the connection open instead of closing
	Deadline   bool        `json:"deadline"`              // endpoints set a 20 s deadline
	KillAtMs   int         `json:"kill_at_ms"`            // the harness closes the transport at this simulated time (0 = never)
	CertsOnly  bool        `json:"certs_only,omitempty"`
	Fingerprint bool       `json:"fingerprint,omitempty"` // the client sends a ClientFingerprintConfiguration hello
	Skip       bool        `json:"skip_verify,omitempty"`
	Tape       []int       `json:"tape,omitempty"`
}

func genC32(seed uint64, tier string) any {
	r := kit.NewRng(seed)
	base := genC24(r.Uint64(), tier).(*c24Scenario)
	sc := &c32Scenario{Seed: seed, Client: base.Client, Server: base.Server, Net: base.Net}
	if r.Chance(1, 3) {
		sc.Server.ClientAuth = r.Intn(5)
		if r.Chance(2, 3) {
			sc.Client.ClientCert = []string{"rsa", "p256", "ed"}[r.Intn(3)]
		}
	}
	sc.CertsOnly = r.Chance(1, 8)
	sc.Fingerprint = r.Chance(1, 7)
	sc.Skip = r.Chance(1, 4)
	sc.Deadline = r.Chance(3, 4)
	sc.KillAtMs = []int{0, 1, 20, 200, 2000, 30000}[r.Intn(6)]
	if !sc.Deadline && sc.KillAtMs == 0 {
		sc.KillAtMs = 5000 // without deadlines only a closed transport guarantees that calls return
	}
	if r.Chance(3, 5) {
		sc.Mode = "corrupt"
		n := r.Pick([]int{0, 6, 2, 1})
		if n == 0 {
			n = 1
		}
		kinds := []string{"flip", "flip", "flip", "trunc", "insert", "dup"}
		for i := 0; i < n; i++ {
			f := byteFault{Dir: r.Intn(2), Kind: kinds[r.Intn(len(kinds))], Bit: r.Intn(8), Len: 1 + r.Intn(40), RST: r.Bool(), Seed: r.Intn(1 << 20)}
			if r.Chance(2, 3) {
				f.Bound = r.Intn(64)
				f.Delta = r.Range(-2, 9)
			} else {
				f.Bound = -1
				f.Delta = r.Intn(1 << 20)
			}
			sc.Faults = append(sc.Faults, f)
		}
	} else {
		sc.Mode = "stub"
		sc.Victim = r.Intn(2)
		sc.StubKind = r.Intn(4)
		sc.StubLen = []int{1, 4, 5, 6, 50, 300, 3000, 20000}[r.Intn(8)]
		sc.StubPrefix = r.Intn(1 << 16)
		sc.StubStall = r.Chance(1, 3)
		if sc.StubStall && !sc.Deadline && sc.KillAtMs == 0 {
			sc.KillAtMs = 3000
		}
	}
	return sc
}

// byteFilter applies byteFaults at absolute offsets of one direction's stream.
type byteFilter struct {
	faults []resolvedFault
	off    int
	Fired  []string
}

type resolvedFault struct {
	At   int
	F    byteFault
	done bool
}

func (b *byteFilter) Write(p []byte) ([]byte, int) {
	var out []byte
	for i, c := range p {
		pos := b.off + i
		emit := true
		for k := range b.faults {
			rf := &b.faults[k]
			if rf.done || rf.At != pos {
				continue
			}
			rf.done = true
			b.Fired = append(b.Fired, rf.F.Kind)
			switch rf.F.Kind {
			case "flip":
				c ^= 1 << uint(rf.F.Bit&7)
			case "insert":
				g := make([]byte, rf.F.Len)
				kit.NewRng(uint64(rf.F.Seed)).Fill(g)
				out = append(out, g...)
			case "dup":
				n := rf.F.Len
				if n > len(out) {
					n = len(out)
				}
				out = append(out, out[len(out)-n:]...)
			case "trunc":
				b.off += len(p)
				cut := kit.CutFIN
				if rf.F.RST {
					cut = kit.CutRST
				}
				return out, cut
			}
		}
		if emit {
			out = append(out, c)
		}
	}
	b.off += len(p)
	return out, kit.CutNone
}

func (b *byteFilter) Closed() []byte { return nil }

// boundaries lists the offsets of record headers and of plaintext handshake
// message headers in a captured stream.
func boundaries(stream []byte) []int {
	recs, _ := parseRecords(stream)
	var out []int
	for _, r := range recs {
		out = append(out, r.Off)
	}
	// handshake message starts inside plaintext handshake records
	_, n := plaintextHandshake(recs)
	for _, r := range recs[:n] {
		if r.Type != recHandshake {
			continue
		}
		// only exact when a message starts at the record start; good enough as a bias
		out = append(out, r.Off+5, r.Off+5+4)
		b := r.Body
		off := 0
		for len(b)-off >= 4 {
			l := int(b[off+1])<<16 | int(b[off+2])<<8 | int(b[off+3])
			off += 4 + l
			if off < len(b) {
				out = append(out, r.Off+5+off)
			}
		}
	}
	if len(out) == 0 {
		out = []int{0}
	}
	return out
}

type c32End struct {
	conn   *tls.Conn
	net    *kit.Conn
	hsErr  error
	calls  int
	logLen int
}

// driveEndpoint issues every public call the property names on one endpoint.
func driveEndpoint(s *kit.Sim, e *c32End, isClient bool, deadline bool) {
	c := e.conn
	if deadline {
		c.SetDeadline(s.Now().Add(20 * time.Second))
	}
	e.hsErr = c.Handshake()
	e.calls++
	_ = c.ConnectionState()
	if b, err := json.Marshal(c.GetHandshakeLog()); err == nil {
		e.logLen = len(b)
	}
	e.calls++
	if e.hsErr == nil {
		buf := make([]byte, 512)
		if isClient {
			c.Write([]byte("GET / HTTP/1.0\r\n\r\n"))
			e.calls++
			c.Read(buf)
			e.calls++
		} else {
			c.Read(buf)
			e.calls++
			c.Write([]byte("HTTP/1.0 200 OK\r\n\r\nhello"))
			e.calls++
		}
		c.Read(buf)
		e.calls++
	} else {
		// calls after a failed handshake must return too
		c.Write([]byte("x"))
		c.Read(make([]byte, 8))
		e.calls += 2
	}
	_ = c.ConnectionState()
	json.Marshal(c.GetHandshakeLog())
	c.OCSPResponse()
	if isClient {
		c.VerifyHostname(serverName)
	}
	c.CloseWrite()
	c.Close()
	c.Close()
	e.calls++
}

func c32Configs(sc *c32Scenario, run *simRun) (*tls.Config, *tls.Config) {
	s := run.S
	scfg := serverConfig(sc.Server, s, run.R.Derive("srv-rand"))
	ccfg := clientConfig(sc.Client, s, run.R.Derive("cli-rand"))
	ccfg.CertsOnly = sc.CertsOnly
	ccfg.InsecureSkipVerify = sc.Skip
	if sc.Fingerprint {
		suites := sc.Client.Suites
		if len(suites) == 0 {
			suites = []uint16{0xc02f, 0xc02b, 0xc013, 0xc009, 0x009c, 0x002f, 0x0035}
		}
		var legacy []uint16
		for _, id := range suites {
			if s := suiteByID[id]; s != nil && s.Kx != kxTLS13 {
				legacy = append(legacy, id)
			}
		}
		if len(legacy) == 0 {
			legacy = []uint16{0xc02f, 0x002f}
		}
		ccfg.ForceSuites = true
		ccfg.ClientFingerprintConfiguration = &tls.ClientFingerprintConfiguration{
			HandshakeVersion:   vTLS12,
			InsertTimestamp:    sc.Seed%2 == 0,
			CipherSuites:       legacy,
			CompressionMethods: []uint8{0},
			Extensions: []tls.ClientExtension{&tls.SNIExtension{Autopopulate: true}, &tls.SupportedCurvesExtension{Curves: []tls.CurveID{tls.X25519, tls.CurveP256}},
				&tls.PointFormatExtension{Formats: []uint8{0}}, &tls.SignatureAlgorithmExtension{SignatureAndHashes: []uint16{0x0401, 0x0501, 0x0201}},
				&tls.SessionTicketExtension{Autopopulate: true}, &tls.StatusRequestExtension{}, &tls.SecureRenegotiationExtension{}},
		}
	}
	if sc.Client.Cache {
		ccfg.ClientSessionCache = tls.NewLRUClientSessionCache(2)
	}
	return ccfg, scfg
}

// genuineStreams runs the scenario without faults and returns both directions'
// byte streams (the simulation is deterministic, so the faulted run reproduces
// them exactly up to the first fault).
func genuineStreams(sc *c32Scenario) (c2s, s2c []byte) {
	run := newSimRun(sc.Seed, nil, false)
	s := run.S
	ccfg, scfg := c32Configs(sc, run)
	cn, sn := s.Pipe("c", "s", sc.Net.params(), sc.Net.params())
	ce := &c32End{conn: tls.Client(cn, ccfg), net: cn}
	se := &c32End{conn: tls.Server(sn, scfg), net: sn}
	s.Go("client", func() { driveEndpoint(s, ce, true, true) })
	s.Go("server", func() { driveEndpoint(s, se, false, true) })
	s.Run()
	return append([]byte(nil), cn.SentStream()...), append([]byte(nil), sn.SentStream()...)
}

func stubStream(sc *c32Scenario, genuine []byte) []byte {
	r := kit.NewRng(sc.Seed ^ 0x5bd1e995)
	n := sc.StubLen
	switch sc.StubKind {
	case 0:
		return r.Bytes(n)
	case 1: // valid record headers, random bodies
		var out []byte
		for len(out) < n {
			typ := []byte{20, 21, 22, 23, 22, 22, byte(r.Intn(256))}[r.Intn(7)]
			vers := []uint16{0x0301, 0x0302, 0x0303, 0x0304, 0x0300, uint16(r.Intn(65536))}[r.Intn(6)]
			l := []int{0, 1, 2, 4, 40, 300, 16384, 16385, 18433}[r.Intn(9)]
			if r.Chance(1, 2) {
				l = r.Intn(200)
			}
			out = append(out, typ, byte(vers>>8), byte(vers), byte(l>>8), byte(l))
			body := r.Bytes(l)
			if r.Chance(1, 5) && l > 0 {
				body = body[:r.Intn(l)] // announce more than is sent
			}
			out = append(out, body...)
		}
		return out
	case 2: // handshake records with consistent handshake headers and random bodies
		var out []byte
		for len(out) < n {
			mt := []byte{1, 2, 4, 8, 11, 12, 13, 14, 15, 16, 20, 22, 24, 0, byte(r.Intn(256))}[r.Intn(15)]
			l := []int{0, 1, 2, 3, 4, 34, 38, 70, 100, 500, 3000}[r.Intn(11)]
			body := r.Bytes(l)
			if r.Chance(1, 2) && l >= 2 {
				body[0], body[1] = 3, byte(r.Intn(5)) // plausible version
			}
			hl := l
			if r.Chance(1, 6) {
				hl = r.Intn(1 << 24) // lying handshake length
			}
			msg := append([]byte{mt, byte(hl >> 16), byte(hl >> 8), byte(hl)}, body...)
			vers := []uint16{0x0301, 0x0303}[r.Intn(2)]
			if r.Chance(1, 4) && len(msg) > 3 {
				// split the message over two records
				k := 1 + r.Intn(len(msg)-1)
				out = append(out, 22, byte(vers>>8), byte(vers), byte(k>>8), byte(k))
				out = append(out, msg[:k]...)
				msg = msg[k:]
			}
			out = append(out, 22, byte(vers>>8), byte(vers), byte(len(msg)>>8), byte(len(msg)))
			out = append(out, msg...)
		}
		return out
	default: // genuine prefix followed by garbage
		k := 0
		if len(genuine) > 0 {
			k = sc.StubPrefix % (len(genuine) + 1)
		}
		return append(append([]byte(nil), genuine[:k]...), r.Bytes(n)...)
	}
}

func execC32(t *testing.T, scAny any, keepLog bool) *Outcome {
	sc := scAny.(*c32Scenario)
	o := &Outcome{Counters: map[string]int{}}
	kit.Bubble(t, func() {
		var gc2s, gs2c []byte
		needGenuine := sc.Mode == "corrupt" || sc.StubKind == 3
		if needGenuine {
			gc2s, gs2c = genuineStreams(sc)
		}
		run := newSimRun(sc.Seed, sc.Tape, keepLog)
		s := run.S
		ccfg, scfg := c32Configs(sc, run)
		cn, sn := s.Pipe("c", "s", sc.Net.params(), sc.Net.params())
		var ends []*c32End
		fired := 0
		var filters [2]*byteFilter
		if sc.Mode == "corrupt" {
			streams := [2][]byte{gc2s, gs2c}
			for d := 0; d < 2; d++ {
				bf := &byteFilter{}
				bs := boundaries(streams[d])
				for _, f := range sc.Faults {
					if f.Dir != d || len(streams[d]) == 0 {
						continue
					}
					at := 0
					if f.Bound >= 0 {
						at = bs[f.Bound%len(bs)] + f.Delta
					} else {
						at = f.Delta % len(streams[d])
					}
					if at < 0 {
						at = 0
					}
					bf.faults = append(bf.faults, resolvedFault{At: at, F: f})
				}
				filters[d] = bf
			}
			cn.SetFilter(filters[0])
			sn.SetFilter(filters[1])
			ce := &c32End{conn: tls.Client(cn, ccfg), net: cn}
			se := &c32End{conn: tls.Server(sn, scfg), net: sn}
			ends = []*c32End{ce, se}
			s.Go("client", func() { driveEndpoint(s, ce, true, sc.Deadline) })
			s.Go("server", func() { driveEndpoint(s, se, false, sc.Deadline) })
		} else {
			var victim *c32End
			var stubNet *kit.Conn
			var data []byte
			if sc.Victim == 0 {
				victim = &c32End{conn: tls.Client(cn, ccfg), net: cn}
				stubNet = sn
				data = stubStream(sc, gs2c)
				s.Go("client", func() { driveEndpoint(s, victim, true, sc.Deadline) })
			} else {
				victim = &c32End{conn: tls.Server(sn, scfg), net: sn}
				stubNet = cn
				data = stubStream(sc, gc2s)
				s.Go("server", func() { driveEndpoint(s, victim, false, sc.Deadline) })
			}
			ends = []*c32End{victim}
			o.count(fmt.Sprintf("fault.stub_kind_%d", sc.StubKind), 1)
			s.Go("stub", func() {
				if sc.Victim == 0 {
					// a client speaks first: wait for its first bytes
					stubNet.SetReadDeadline(s.Now().Add(2 * time.Second))
					stubNet.Read(make([]byte, 4096))
				}
				stubNet.Write(data)
				if sc.StubStall {
					o.count("fault.stub_stall", 1)
					// keep reading and discarding until the victim or the harness closes
					stubNet.SetReadDeadline(time.Time{})
					buf := make([]byte, 4096)
					for {
						if _, err := stubNet.Read(buf); err != nil {
							break
						}
					}
				}
				stubNet.Close()
			})
		}
		if sc.KillAtMs > 0 {
			s.After(time.Duration(sc.KillAtMs)*time.Millisecond, func() {
				o.count("fault.transport_killed", 1)
				cn.Kill(false)
				sn.Kill(false)
			})
		}
		s.Run()
		for d := 0; d < 2; d++ {
			if filters[d] != nil {
				for _, k := range filters[d].Fired {
					o.count("fault.byte_"+k, 1)
					fired++
				}
			}
		}
		for _, p := range s.Panics() {
			o.Fail = Failf("c32.panic", panicSite(p.Stack), "task %s panicked: %v\n%s", p.Name, p.PanicVal, p.Stack)
		}
		if o.Fail == nil && len(s.Deadlock) > 0 {
			o.Fail = Failf("c32.blocked", "call still blocked with the transport closed and no event pending", "blocked: %v", s.Deadlock)
		}
		if o.Fail == nil && (s.StepCapHit || s.TimeCapHit) {
			o.Fail = Failf("c32.noreturn", "calls did not return within the step/time budget", "stepcap=%v timecap=%v steps=%d", s.StepCapHit, s.TimeCapHit, s.Steps)
		}
		okHS := 0
		for _, e := range ends {
			if e.hsErr == nil {
				okHS++
			}
			if e.logLen > 0 {
				o.count("probe.partial_log_marshalled", 1)
			}
		}
		o.count(fmt.Sprintf("probe.handshakes_ok_%d", okHS), 1)
		finishOutcome(o, s)
		h := kit.NewHash64()
		h.WriteU64(s.TapeHash())
		b, _ := json.Marshal(sc)
		h.Write(b)
		o.Distinct = h.Sum()
		o.Nontrivial = fired > 0 || sc.Mode == "stub"
	})
	return o
}

// panicSite extracts the innermost /repo frame of a panic stack, used as the
// finding signature.
func panicSite(stack string) string {
	lines := splitLines(stack)
	for i, l := range lines {
		if len(l) > 0 && l[0] == '\t' && containsStr(l, kit.RepoPrefix()) {
			// the function name is on the previous line
			fn := ""
			if i > 0 {
				fn = lines[i-1]
			}
			f := l[1:]
			if k := indexStr(f, " +0x"); k >= 0 {
				f = f[:k]
			}
			// drop the argument list (pointer values differ from run to run)
			for k := len(fn) - 1; k >= 0; k-- {
				if fn[k] == '(' {
					if k > 0 && fn[k-1] != ')' || k == 0 {
						fn = fn[:k]
					}
					break
				}
			}
			return "panic at " + f + " in " + fn
		}
	}
	return "panic"
}

func splitLines(s string) []string {
	var out []string
	cur := 0
	for i := 0; i < len(s); i++ {
		if s[i] == '\n' {
			out = append(out, s[cur:i])
			cur = i + 1
		}
	}
	return append(out, s[cur:])
}
func indexStr(s, sub string) int {
	for i := 0; i+len(sub) <= len(s); i++ {
		if s[i:i+len(sub)] == sub {
			return i
		}
	}
	return -1
}
func containsStr(s, sub string) bool { return indexStr(s, sub) >= 0 }

func shrinkC32(scAny any) []any {
	sc := scAny.(*c32Scenario)
	var out []any
	cp := func() *c32Scenario {
		c := *sc
		c.Faults = append([]byteFault(nil), sc.Faults...)
		return &c
	}
	for i := range sc.Faults {
		if len(sc.Faults) > 1 {
			c := cp()
			c.Faults = dropIndex(c.Faults, i)
			out = append(out, c)
		}
	}
	if sc.Net.SegMode != 0 || sc.Net.ShortReads || sc.Net.LatMaxUs != 0 {
		c := cp()
		c.Net = NetCfg{}
		out = append(out, c)
	}
	if sc.StubLen > 1 {
		c := cp()
		c.StubLen = sc.StubLen / 2
		out = append(out, c)
	}
	for _, f := range []func(c *c32Scenario){
		func(c *c32Scenario) { c.Client.Suites, c.Client.ForceSuites = nil, false },
		func(c *c32Scenario) { c.Server.Suites = nil },
		func(c *c32Scenario) { c.Client.ALPN, c.Server.ALPN = nil, nil },
		func(c *c32Scenario) { c.Client.Curves, c.Server.Curves = nil, nil },
		func(c *c32Scenario) { c.Client.MinVersion, c.Client.MaxVersion = 0, 0 },
		func(c *c32Scenario) { c.Server.MinVersion, c.Server.MaxVersion = 0, 0 },
		func(c *c32Scenario) { c.Server.ClientAuth = 0; c.Client.ClientCert = "" },
		func(c *c32Scenario) { c.CertsOnly = false },
		func(c *c32Scenario) { c.Client.Cache = false },
		func(c *c32Scenario) { c.KillAtMs = 0; c.Deadline = true },
		func(c *c32Scenario) { c.StubStall = false },
		func(c *c32Scenario) { c.Tape = nil },
	} {
		c := cp()
		f(c)
		out = append(out, c)
	}
	return out
}

func init() {
	register(&Prop{
		ID: "C32", Level: "fault_enumeration", Engine: "A (lockstep scheduler, simnet with byte-level corrupting filter or stub peer, synctest bubble)",
		Rule: "seeded configuration x (corrupting transport with 1-3 byte-level faults placed relative to record/handshake-message boundaries of the genuine transcript, or a stub peer sending random / framed / half-genuine byte streams) x deadline or transport kill; non-trivial = a fault fired or a stub stream was sent; distinct = hash of (scenario, schedule tape)",
		Real:   []string{"tls.Client and tls.Server: Handshake, Read, Write, ConnectionState, GetHandshakeLog + JSON marshal, OCSPResponse, VerifyHostname, CloseWrite, Close on partial and failed handshakes"},
		Stub:   []string{"transport", "clock", "entropy", "stub peer in stub mode"},
		Assume: []string{"a call that returns because its deadline expired has returned"},
		FaultKinds: []string{"fault.byte_flip", "fault.byte_trunc", "fault.byte_insert", "fault.byte_dup", "fault.stub_kind_0", "fault.stub_kind_1", "fault.stub_kind_2", "fault.stub_kind_3", "fault.stub_stall", "fault.transport_killed",
			"net.read_deadline_expired", "probe.partial_log_marshalled", "probe.handshakes_ok_0", "probe.handshakes_ok_1", "probe.handshakes_ok_2"},
		NotInjected: "no storage or crash-restart; allocation failure has no seam in Go",
		Gen:         genC32, New: func() any { return &c32Scenario{} }, Exec: execC32, Shrink: shrinkC32,
		QuickRuns: 16000, ThoroughRuns: 2000000,
	})
}
