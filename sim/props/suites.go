package props

// Cipher-suite facts written by hand from the IANA TLS parameters registry
// and the defining RFCs (5246, 4492, 5288, 5289, 7905, 8446). Not copied from
// zcrypto's tables.

const (
	kxRSA = iota
	kxDHERSA
	kxECDHERSA
	kxECDHEECDSA
	kxTLS13
)

const (
	ccRC4 = iota
	cc3DES
	ccAESCBC
	ccAESGCM
	ccChaCha
)

type suiteInfo struct {
	ID     uint16
	Name   string
	Kx     int
	Class  int
	MacLen int  // HMAC output length for stream/CBC suites
	Block  int  // cipher block size for CBC suites
	Only12 bool // defined for TLS 1.2 only (SHA-256/384 PRF or AEAD)
	Std    bool // advertised by a client without ForceSuites (zcrypto documents ForceSuites for the rest)
}

var suiteTable = []suiteInfo{
	{0x0005, "RSA_RC4_128_SHA", kxRSA, ccRC4, 20, 0, false, true},
	{0x000a, "RSA_3DES_EDE_CBC_SHA", kxRSA, cc3DES, 20, 8, false, true},
	{0x002f, "RSA_AES_128_CBC_SHA", kxRSA, ccAESCBC, 20, 16, false, true},
	{0x0035, "RSA_AES_256_CBC_SHA", kxRSA, ccAESCBC, 20, 16, false, true},
	{0x003c, "RSA_AES_128_CBC_SHA256", kxRSA, ccAESCBC, 32, 16, true, true},
	{0x003d, "RSA_AES_256_CBC_SHA256", kxRSA, ccAESCBC, 32, 16, true, false},
	{0x009c, "RSA_AES_128_GCM_SHA256", kxRSA, ccAESGCM, 0, 0, true, true},
	{0x009d, "RSA_AES_256_GCM_SHA384", kxRSA, ccAESGCM, 0, 0, true, true},
	{0x0016, "DHE_RSA_3DES_EDE_CBC_SHA", kxDHERSA, cc3DES, 20, 8, false, false},
	{0x0033, "DHE_RSA_AES_128_CBC_SHA", kxDHERSA, ccAESCBC, 20, 16, false, false},
	{0x0039, "DHE_RSA_AES_256_CBC_SHA", kxDHERSA, ccAESCBC, 20, 16, false, false},
	{0x0067, "DHE_RSA_AES_128_CBC_SHA256", kxDHERSA, ccAESCBC, 32, 16, true, false},
	{0x006b, "DHE_RSA_AES_256_CBC_SHA256", kxDHERSA, ccAESCBC, 32, 16, true, false},
	{0x009e, "DHE_RSA_AES_128_GCM_SHA256", kxDHERSA, ccAESGCM, 0, 0, true, false},
	{0x009f, "DHE_RSA_AES_256_GCM_SHA384", kxDHERSA, ccAESGCM, 0, 0, true, false},
	{0xccaa, "DHE_RSA_CHACHA20_POLY1305", kxDHERSA, ccChaCha, 0, 0, true, false},
	{0xc007, "ECDHE_ECDSA_RC4_128_SHA", kxECDHEECDSA, ccRC4, 20, 0, false, true},
	{0xc008, "ECDHE_ECDSA_3DES_EDE_CBC_SHA", kxECDHEECDSA, cc3DES, 20, 8, false, false},
	{0xc009, "ECDHE_ECDSA_AES_128_CBC_SHA", kxECDHEECDSA, ccAESCBC, 20, 16, false, true},
	{0xc00a, "ECDHE_ECDSA_AES_256_CBC_SHA", kxECDHEECDSA, ccAESCBC, 20, 16, false, true},
	{0xc011, "ECDHE_RSA_RC4_128_SHA", kxECDHERSA, ccRC4, 20, 0, false, true},
	{0xc012, "ECDHE_RSA_3DES_EDE_CBC_SHA", kxECDHERSA, cc3DES, 20, 8, false, true},
	{0xc013, "ECDHE_RSA_AES_128_CBC_SHA", kxECDHERSA, ccAESCBC, 20, 16, false, true},
	{0xc014, "ECDHE_RSA_AES_256_CBC_SHA", kxECDHERSA, ccAESCBC, 20, 16, false, true},
	{0xc023, "ECDHE_ECDSA_AES_128_CBC_SHA256", kxECDHEECDSA, ccAESCBC, 32, 16, true, true},
	{0xc027, "ECDHE_RSA_AES_128_CBC_SHA256", kxECDHERSA, ccAESCBC, 32, 16, true, true},
	{0xc02b, "ECDHE_ECDSA_AES_128_GCM_SHA256", kxECDHEECDSA, ccAESGCM, 0, 0, true, true},
	{0xc02c, "ECDHE_ECDSA_AES_256_GCM_SHA384", kxECDHEECDSA, ccAESGCM, 0, 0, true, true},
	{0xc02f, "ECDHE_RSA_AES_128_GCM_SHA256", kxECDHERSA, ccAESGCM, 0, 0, true, true},
	{0xc030, "ECDHE_RSA_AES_256_GCM_SHA384", kxECDHERSA, ccAESGCM, 0, 0, true, true},
	{0xcca8, "ECDHE_RSA_CHACHA20_POLY1305", kxECDHERSA, ccChaCha, 0, 0, true, true},
	{0xcca9, "ECDHE_ECDSA_CHACHA20_POLY1305", kxECDHEECDSA, ccChaCha, 0, 0, true, true},
	{0x1301, "TLS13_AES_128_GCM_SHA256", kxTLS13, ccAESGCM, 0, 0, false, true},
	{0x1302, "TLS13_AES_256_GCM_SHA384", kxTLS13, ccAESGCM, 0, 0, false, true},
	{0x1303, "TLS13_CHACHA20_POLY1305_SHA256", kxTLS13, ccChaCha, 0, 0, false, true},
}

var suiteByID = func() map[uint16]*suiteInfo {
	m := map[uint16]*suiteInfo{}
	for i := range suiteTable {
		m[suiteTable[i].ID] = &suiteTable[i]
	}
	return m
}()

const (
	vTLS10 = 0x0301
	vTLS11 = 0x0302
	vTLS12 = 0x0303
	vTLS13 = 0x0304
)

// usableAt reports whether the suite is defined for the protocol version.
func (s *suiteInfo) usableAt(v uint16) bool {
	if s.Kx == kxTLS13 {
		return v == vTLS13
	}
	if v == vTLS13 {
		return false
	}
	if s.Only12 {
		return v == vTLS12
	}
	return true
}

// keyOK reports whether the key exchange can be authenticated with a server key
// of the given kind ("rsa", "p256", "p384", "ed").
func (s *suiteInfo) keyOK(key string) bool {
	switch s.Kx {
	case kxRSA, kxDHERSA, kxECDHERSA:
		return key == "rsa"
	case kxECDHEECDSA:
		return key == "p256" || key == "p384" || key == "ed"
	}
	return true
}

// maxExpansion is the largest number of bytes a protected record may exceed
// its plaintext by, per RFC 5246 6.2.3 / RFC 8446 5.2, for the suite class.
func (s *suiteInfo) maxExpansion(v uint16) int {
	switch {
	case v == vTLS13:
		return 1 + 16 // inner content type + AEAD tag (no padding is sent by this implementation, but up to 255 allowed by 5.4: bound is 256)
	case s.Class == ccAESGCM:
		return 8 + 16
	case s.Class == ccChaCha:
		return 16
	case s.Class == ccRC4:
		return s.MacLen
	default: // CBC: MAC + padding (1..block) + explicit IV for TLS >= 1.1
		e := s.MacLen + s.Block
		if v >= vTLS11 {
			e += s.Block
		}
		return e
	}
}
