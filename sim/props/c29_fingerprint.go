package props

import (
	"bytes"
	"encoding/binary"
	"encoding/json"
	"fmt"
	"net"
	"testing"
	"time"

	"github.com/zmap/zcrypto/tls"
	"verifsim/kit"
)

// C29: a client configured with a ClientFingerprintConfiguration talks to a real
// zcrypto server over simnet; the first flight captured on the wire is parsed
// independently and compared with the configuration. Clock (timestamp prefix)
// and entropy (fresh random) are behind the simulator's seams.

type fpExt struct {
	Kind      string   `json:"kind"` // null sni sni_auto alpn reneg ems status sct curves points ticket ticket_auto sigalgs
	Names     []string `json:"names,omitempty"`
	U16       []uint16 `json:"u16,omitempty"`
	Bytes     []byte   `json:"bytes,omitempty"`
}

type c29Scenario struct {
	Seed        uint64  `json:"seed"`
	Version     uint16  `json:"version"`
	Random      []byte  `json:"random,omitempty"` // 32 bytes = fixed random; other lengths = fresh randomness
	Timestamp   bool    `json:"timestamp"`
	SessionID   []byte  `json:"session_id,omitempty"`
	Suites      []uint16 `json:"suites"`
	Exts        []fpExt `json:"exts"`
	CacheMode   int     `json:"cache_mode"` // 0 none, 1 fingerprint SessionCache + CacheKey, 2 Config.ClientSessionCache
	Force       bool    `json:"force_suites"`
	ServerName  string  `json:"server_name"`
	Second      string  `json:"second,omitempty"` // a second connection re-uses the same ClientFingerprintConfiguration object with this Config.ServerName
	ClockOffset int     `json:"clock_offset_s"` // simulated seconds that pass before the client starts
	Repeat      bool    `json:"repeat,omitempty"`     // extension types may occur more than once in the configured list
	Resuite     bool    `json:"resuite,omitempty"`    // before a second connection the same fingerprint object gets another suite list of the same length
	// Warm (with CacheMode 1): before the fingerprinted connection an ordinary TLS 1.2 connection under this suite fills
	// the fingerprint's session cache, so that an autopopulated session_ticket extension has a ticket to carry.
	// RandSID = ClientFingerprintConfiguration.RandomSessionID (a fresh session id of that length accompanies a cached ticket).
	Warm    uint16 `json:"warm,omitempty"`
	RandSID int    `json:"rand_sid,omitempty"`
	Net     NetCfg `json:"net"`
	Tape    []int  `json:"tape,omitempty"`

	cachedTicket []byte // set by execC29 after the warm-up
}

var fpWarmSuites = []uint16{0x002f, 0x0035, 0x003c, 0x009c, 0x009d, 0xc013, 0xc014, 0xc027, 0xc02f, 0xc030, 0xcca8}

var fpImplementedSuites = []uint16{0x002f, 0x0035, 0x003c, 0x003d, 0x009c, 0x009d, 0x0005, 0x000a, 0x0033, 0x0039, 0x0067, 0x006b, 0x009e, 0x009f,
	0xc009, 0xc00a, 0xc013, 0xc014, 0xc023, 0xc027, 0xc02b, 0xc02c, 0xc02f, 0xc030, 0xcca8, 0xcca9, 0xc011, 0xc012, 0xc007, 0x0016}

func genC29(seed uint64, tier string) any {
	r := kit.NewRng(seed)
	sc := &c29Scenario{Seed: seed}
	sc.Version = []uint16{vTLS10, vTLS11, vTLS12, vTLS12}[r.Intn(4)]
	if r.Chance(1, 5) {
		// rarely used handshake versions: TLS 1.3 and beyond, a TLS 1.3 draft, a GREASE-like value
		sc.Version = []uint16{0x0304, 0x0305, 0x7f1c, 0x7f17, 0x3a3a, 0x03ff}[r.Intn(6)]
	}
	switch r.Intn(4) {
	case 0:
		sc.Random = r.Bytes(32)
	case 1:
		sc.Random = r.Bytes(r.Intn(31))
	}
	sc.Timestamp = r.Bool()
	sc.SessionID = r.Bytes([]int{0, 0, 1, 16, 32}[r.Intn(5)])
	if r.Chance(1, 12) {
		sc.SessionID = r.Bytes([]int{33, 48, 64, 255}[r.Intn(4)]) // longer than TLS allows, but what the configuration says goes on the wire
	}
	sc.Repeat = r.Chance(1, 8)
	n := r.Range(1, 12)
	if r.Chance(1, 12) {
		n = []int{127, 128, 129, 130, 200, 255, 256, 300}[r.Intn(8)] // list lengths around the one-byte boundaries of the length prefix
	}
	for i := 0; i < n; i++ {
		sc.Suites = append(sc.Suites, fpImplementedSuites[r.Intn(len(fpImplementedSuites))])
	}
	sc.Force = r.Chance(1, 3)
	if sc.Force && r.Chance(1, 2) {
		sc.Suites = append(sc.Suites, uint16(r.Intn(65536))) // arbitrary code point, allowed with ForceSuites
	}
	sc.ServerName = serverName
	if r.Chance(1, 3) {
		sc.Second = dnsNameOfLen([]int{9, 20, 63, 100, 253}[r.Intn(5)])
	}
	kinds := []string{"null", "sni", "sni_auto", "alpn", "reneg", "ems", "status", "sct", "curves", "points", "ticket", "ticket_auto", "sigalgs", "ticket_auto_preset"}
	ne := r.Range(0, 9)
	used := map[string]bool{}
	for i := 0; i < ne; i++ {
		k := kinds[r.Intn(len(kinds))]
		base := k
		if k == "sni_auto" {
			base = "sni"
		}
		if k == "ticket_auto" || k == "ticket_auto_preset" {
			base = "ticket"
		}
		if used[base] && k != "null" && !(sc.Repeat && base != "sni" && base != "ticket") {
			continue // a ClientHello should not repeat an extension type (Repeat: the configuration does it anyway)
		}
		used[base] = true
		e := fpExt{Kind: k}
		switch k {
		case "sni":
			e.Names = []string{[]string{serverName, "a.example", "xn--test.sim.test"}[r.Intn(3)]}
			if r.Chance(1, 3) {
				// boundary lengths of a DNS name (labels of at most 63 bytes, 253 bytes in total)
				e.Names = []string{dnsNameOfLen([]int{1, 62, 63, 64, 127, 128, 200, 250, 252, 253}[r.Intn(10)])}
			}
		case "alpn":
			for j := r.Range(1, 3); j > 0; j-- {
				e.Names = append(e.Names, alpnUniverse[r.Intn(len(alpnUniverse))])
			}
		case "curves":
			for _, j := range r.Perm(4)[:r.Range(1, 4)] {
				e.U16 = append(e.U16, allCurves[j])
			}
		case "points":
			e.Bytes = [][]byte{{0}, {0}, {0, 0}, {0, 0, 0}}[r.Intn(4)] // only the uncompressed format is implemented; the list length is free
		case "ticket_auto_preset":
			e.Bytes = r.Bytes([]int{1, 40, 200}[r.Intn(3)])
		case "ticket":
			e.Bytes = r.Bytes([]int{0, 1, 48, 200, 255, 256, 257, 1000}[r.Intn(8)])
		case "sigalgs":
			for j := r.Range(1, 5); j > 0; j-- {
				e.U16 = append(e.U16, uint16(r.Range(2, 6))<<8|uint16(r.Range(1, 2)))
			}
		}
		sc.Exts = append(sc.Exts, e)
	}
	sc.CacheMode = r.Pick([]int{3, 1, 1})
	sc.Resuite = r.Chance(1, 5)
	if sc.CacheMode == 1 && r.Chance(1, 2) {
		if !used["ticket"] {
			sc.Exts = append(sc.Exts, fpExt{})
			at := r.Intn(len(sc.Exts))
			copy(sc.Exts[at+1:], sc.Exts[at:])
			sc.Exts[at] = fpExt{Kind: "ticket_auto"}
		}
		sc.Warm = 0xc02f
		var common []uint16
		for _, a := range sc.Suites {
			for _, b := range fpWarmSuites {
				if a == b {
					common = append(common, a)
				}
			}
		}
		if len(common) > 0 && !r.Chance(1, 6) {
			sc.Warm = common[r.Intn(len(common))]
		}
		if r.Chance(1, 3) {
			sc.RandSID = []int{2, 16, 32}[r.Intn(3)] // (the simulated entropy source does not log one-byte reads)
		}
	}
	sc.ClockOffset = []int{0, 1, 3600, 86400 * 365 * 5, 86400 * 365 * 30}[r.Intn(5)]
	sc.Net = genNet(r)
	return sc
}

// dnsNameOfLen returns a syntactically valid DNS name of exactly n bytes.
func dnsNameOfLen(n int) string {
	var b []byte
	for len(b) < n {
		l := n - len(b)
		if l > 63 {
			l = 63
			if n-len(b)-l == 1 {
				l = 62 // never leave room for a lone dot
			}
		}
		for i := 0; i < l; i++ {
			b = append(b, byte('a'+(len(b)+i)%26))
		}
		if len(b) < n {
			b = append(b, '.')
		}
	}
	return string(b)
}

type fixedCacheKey struct{}

// rekeyedCache stores whatever an ordinary client puts under the fingerprint's fixed cache key.
type rekeyedCache struct{ inner tls.ClientSessionCache }

func (c rekeyedCache) Get(string) (*tls.ClientSessionState, bool) { return c.inner.Get(fixedCacheKey{}.Key(nil)) }
func (c rekeyedCache) Put(_ string, st *tls.ClientSessionState)   { c.inner.Put(fixedCacheKey{}.Key(nil), st) }

func (fixedCacheKey) Key(net.Addr) string { return "fp-cache-key" }

// refExt encodes an extension from the RFCs (6066, 7301, 5746, 7627, 6962, 8422, 5077, 5246).
func refExt(e fpExt, cfgServerName string) []byte {
	tlv := func(t uint16, d []byte) []byte {
		return append([]byte{byte(t >> 8), byte(t), byte(len(d) >> 8), byte(len(d))}, d...)
	}
	v16 := func(d []byte) []byte { return append([]byte{byte(len(d) >> 8), byte(len(d))}, d...) }
	switch e.Kind {
	case "null":
		return nil
	case "sni", "sni_auto":
		name := cfgServerName
		if e.Kind == "sni" {
			name = e.Names[0]
		}
		if name == "" {
			return nil
		}
		entry := append([]byte{0}, v16([]byte(name))...)
		return tlv(0, v16(entry))
	case "alpn":
		var l []byte
		for _, p := range e.Names {
			l = append(l, byte(len(p)))
			l = append(l, p...)
		}
		return tlv(16, v16(l))
	case "reneg":
		return tlv(0xff01, []byte{0})
	case "ems":
		return tlv(23, nil)
	case "status":
		return tlv(5, []byte{1, 0, 0, 0, 0})
	case "sct":
		return tlv(18, nil)
	case "curves":
		var l []byte
		for _, c := range e.U16 {
			l = append(l, byte(c>>8), byte(c))
		}
		return tlv(10, v16(l))
	case "points":
		return tlv(11, append([]byte{byte(len(e.Bytes))}, e.Bytes...))
	case "ticket", "ticket_auto_preset":
		// (autopopulation replaces the configured ticket only when a cached session exists)
		return tlv(35, e.Bytes)
	case "ticket_auto":
		return nil // without a cached session the autopopulated ticket extension is dropped
	case "sigalgs":
		var l []byte
		for _, c := range e.U16 {
			l = append(l, byte(c>>8), byte(c))
		}
		return tlv(13, v16(l))
	}
	return nil
}

func buildExt(e fpExt) tls.ClientExtension {
	switch e.Kind {
	case "null":
		return &tls.NullExtension{}
	case "sni":
		return &tls.SNIExtension{Domains: e.Names}
	case "sni_auto":
		return &tls.SNIExtension{Autopopulate: true}
	case "alpn":
		return &tls.ALPNExtension{Protocols: e.Names}
	case "reneg":
		return &tls.SecureRenegotiationExtension{}
	case "ems":
		return &tls.ExtendedMasterSecretExtension{}
	case "status":
		return &tls.StatusRequestExtension{}
	case "sct":
		return &tls.SCTExtension{}
	case "curves":
		return &tls.SupportedCurvesExtension{Curves: curveIDs(e.U16)}
	case "points":
		return &tls.PointFormatExtension{Formats: e.Bytes}
	case "ticket":
		return &tls.SessionTicketExtension{Ticket: e.Bytes}
	case "ticket_auto":
		return &tls.SessionTicketExtension{Autopopulate: true}
	case "ticket_auto_preset":
		return &tls.SessionTicketExtension{Ticket: e.Bytes, Autopopulate: true}
	case "sigalgs":
		return &tls.SignatureAlgorithmExtension{SignatureAndHashes: e.U16}
	}
	return &tls.NullExtension{}
}

func execC29(t *testing.T, scAny any, keepLog bool) *Outcome {
	sc := scAny.(*c29Scenario)
	o := &Outcome{Counters: map[string]int{}}
	kit.Bubble(t, func() {
		run := newSimRun(sc.Seed, sc.Tape, keepLog)
		s := run.S
		scfg := serverConfig(EndCfg{KeyKind: "rsa"}, s, run.R.Derive("srv-rand"))
		crand := kit.NewReader(run.R.Derive("cli-rand"))
		crand.Keep = true
		fp := &tls.ClientFingerprintConfiguration{
			HandshakeVersion:   sc.Version,
			ClientRandom:       sc.Random,
			InsertTimestamp:    sc.Timestamp,
			SessionID:          sc.SessionID,
			CipherSuites:       sc.Suites,
			CompressionMethods: []uint8{0},
		}
		for _, e := range sc.Exts {
			fp.Extensions = append(fp.Extensions, buildExt(e))
		}
		ccfg := &tls.Config{RootCAs: pki().RootPool, ServerName: sc.ServerName, Rand: crand, Time: s.Now, ClientFingerprintConfiguration: fp, ForceSuites: sc.Force}
		switch sc.CacheMode {
		case 1:
			fp.SessionCache = tls.NewLRUClientSessionCache(4)
			fp.CacheKey = fixedCacheKey{}
			o.count("probe.fingerprint_session_cache", 1)
		case 2:
			ccfg.ClientSessionCache = tls.NewLRUClientSessionCache(4)
			o.count("probe.config_session_cache", 1)
		}
		fp.RandomSessionID = sc.RandSID
		s.MaxTime = 40 * 366 * 24 * time.Hour
		if sc.Warm != 0 && sc.CacheMode == 1 {
			// an ordinary connection of the same application to the same server, sharing the fingerprint's session cache
			wcfg := &tls.Config{RootCAs: pki().RootPool, ServerName: serverName, Rand: kit.NewReader(run.R.Derive("warm-rand")), Time: s.Now,
				MinVersion: vTLS12, MaxVersion: vTLS12, CipherSuites: []uint16{sc.Warm}, ClientSessionCache: rekeyedCache{fp.SessionCache}}
			cn, sn := s.Pipe("cw", "sw", sc.Net.params(), sc.Net.params())
			wc, ws := tls.Client(cn, wcfg), tls.Server(sn, scfg)
			s.Go("clientw", func() {
				wc.SetDeadline(s.Now().Add(20 * time.Second))
				wc.Handshake()
				wc.Close()
			})
			s.Go("serverw", func() {
				ws.SetDeadline(s.Now().Add(20 * time.Second))
				ws.Handshake()
				ws.Close()
			})
			s.Run()
			if st, ok := fp.SessionCache.Get(fixedCacheKey{}.Key(nil)); ok && st != nil {
				sc.cachedTicket = tls.VerifSessionTicket(st)
				o.count("probe.fingerprint_cache_holds_session", 1)
			}
		}
		connect := func(label string, ccfg *tls.Config, csc *c29Scenario) {
			cn, sn := s.Pipe("c"+label, "s"+label, sc.Net.params(), sc.Net.params())
			client := tls.Client(cn, ccfg)
			server := tls.Server(sn, scfg)
			var cErr, sErr error
			var tStart, tEnd time.Time
			s.Go("client"+label, func() {
				if sc.ClockOffset > 0 {
					s.Sleep(time.Duration(sc.ClockOffset) * time.Second)
				}
				tStart = s.Now()
				client.SetDeadline(s.Now().Add(20 * time.Second))
				cErr = client.Handshake()
				tEnd = s.Now()
				client.Close()
			})
			s.Go("server"+label, func() {
				sErr = server.Handshake()
				server.Close()
			})
			s.Run()
			for _, p := range s.Panics() {
				o.Fail = Failf("c29.panic", panicSite(p.Stack), "task %s panicked before/while sending a fingerprinted ClientHello: %v\n%s", p.Name, p.PanicVal, p.Stack)
			}
			if o.Fail == nil {
				o.Fail = c29Check(csc, cn, server, crand, tStart, tEnd, cErr, sErr, o)
			}
		}
		connect("", ccfg, sc)
		if o.Fail == nil && sc.Second != "" && sc.CacheMode == 0 {
			// the same fingerprint object serves another connection to another host
			c2 := ccfg.Clone()
			c2.ServerName = sc.Second
			sc2 := *sc
			sc2.ServerName = sc.Second
			o.count("probe.fingerprint_reused_for_second_host", 1)
			connect("2", c2, &sc2)
			if o.Fail != nil {
				o.Fail.Msg = "second connection re-using the fingerprint configuration: " + o.Fail.Msg
			}
		}
		if o.Fail == nil && sc.Resuite && sc.CacheMode == 0 && len(sc.Suites) > 1 {
			// the application edits the fingerprint it keeps: another suite list of the same length (reversed)
			sc3 := *sc
			sc3.Suites = append([]uint16(nil), sc.Suites...)
			for i, j := 0, len(sc3.Suites)-1; i < j; i, j = i+1, j-1 {
				sc3.Suites[i], sc3.Suites[j] = sc3.Suites[j], sc3.Suites[i]
			}
			fp.CipherSuites = sc3.Suites
			o.count("probe.fingerprint_suites_edited_between_connections", 1)
			connect("3", ccfg, &sc3)
			if o.Fail != nil {
				o.Fail.Msg = "connection after the fingerprint's suite list was replaced by one of the same length: " + o.Fail.Msg
			}
		}
		if o.Fail == nil && (len(s.Deadlock) > 0 || s.StepCapHit) {
			o.Fail = Failf("c29.stuck", "tasks did not finish", "deadlock=%v", s.Deadlock)
		}
		finishOutcome(o, s)
		h := kit.NewHash64()
		b, _ := json.Marshal(sc)
		h.Write(b)
		o.Distinct = h.Sum()
	})
	return o
}

func c29Check(sc *c29Scenario, cn *kit.Conn, server *tls.Conn, crand *kit.Reader, tStart, tEnd time.Time, cErr, sErr error, o *Outcome) *Failure {
	recs, _ := parseRecords(cn.SentStream())
	msgs, _ := plaintextHandshake(recs)
	m := firstMsg(msgs, hsClientHello)
	if m == nil {
		return Failf("c29.nohello", "a valid fingerprint configuration produced no ClientHello", "client error: %v", cErr)
	}
	o.Nontrivial = true
	ch, err := parseClientHello(m.Body)
	if err != nil {
		return Failf("c29.malformed", "fingerprinted ClientHello on the wire is malformed", "%v", err)
	}
	if ch.Vers != sc.Version {
		return Failf("c29.version", "handshake version on the wire differs from the configured one", "wire %04x configured %04x", ch.Vers, sc.Version)
	}
	if len(recs) > 0 && recs[0].Type != recHandshake {
		return Failf("c29.record", "first record is not a handshake record", "type %d", recs[0].Type)
	}
	// random
	if len(sc.Random) == 32 {
		if !bytes.Equal(ch.Random, sc.Random) {
			return Failf("c29.random", "configured 32-byte client random not sent", "wire %x configured %x", ch.Random, sc.Random)
		}
	} else {
		fresh := ch.Random
		if sc.Timestamp {
			o.count("probe.timestamp_checked", 1)
			ts := binary.BigEndian.Uint32(ch.Random[:4])
			lo, hi := uint32(tStart.Unix()), uint32(tEnd.Unix())
			if ts < lo || ts > hi {
				return Failf("c29.timestamp", "client random does not start with the 32-bit Unix time of the (simulated) clock", "prefix %x = %d, simulated clock %d..%d", ch.Random[:4], ts, lo, hi)
			}
			fresh = ch.Random[4:]
		}
		o.count("probe.fresh_random_checked", 1)
		if !bytes.Contains(crand.Log, fresh) {
			return Failf("c29.random", "client random bytes were not drawn from the configured entropy source", "wire %x", fresh)
		}
	}
	freshSID := sc.RandSID > 0 && sc.cachedTicket != nil && len(ch.SessionID) == sc.RandSID && bytes.Contains(crand.Log, ch.SessionID)
	if freshSID {
		o.count("probe.fresh_session_id_with_cached_ticket", 1)
	} else if !bytes.Equal(ch.SessionID, sc.SessionID) {
		return Failf("c29.sessionid", "session id on the wire differs from the configured one", "wire %x configured %x (RandomSessionID %d, cached ticket %d bytes)", ch.SessionID, sc.SessionID, sc.RandSID, len(sc.cachedTicket))
	}
	if len(ch.Suites) != len(sc.Suites) {
		return Failf("c29.suites", "cipher suite list on the wire differs from the configured one", "wire %04x configured %04x", ch.Suites, sc.Suites)
	}
	for i := range ch.Suites {
		if ch.Suites[i] != sc.Suites[i] {
			return Failf("c29.suites", "cipher suite list on the wire differs from the configured one", "wire %04x configured %04x", ch.Suites, sc.Suites)
		}
	}
	if !bytes.Equal(ch.Compression, []byte{0}) {
		return Failf("c29.compression", "compression methods on the wire differ from the configured ones", "wire %x", ch.Compression)
	}
	var want, wantAlt, wantCached []byte
	for _, e := range sc.Exts {
		x := refExt(e, sc.ServerName)
		want = append(want, x...)
		y := x
		if e.Kind == "ticket_auto" {
			// no cached session: an autopopulated ticket extension is either dropped or sent empty (advertising support)
			y = []byte{0, 35, 0, 0}
		}
		wantAlt = append(wantAlt, y...)
		if (e.Kind == "ticket_auto" || e.Kind == "ticket_auto_preset") && sc.cachedTicket != nil {
			// a cached session the fingerprint may use: the extension carries its ticket
			x = append([]byte{0, 35, byte(len(sc.cachedTicket) >> 8), byte(len(sc.cachedTicket))}, sc.cachedTicket...)
		}
		wantCached = append(wantCached, x...)
	}
	if sc.cachedTicket != nil && bytes.Equal(ch.ExtBlock, wantCached) && !bytes.Equal(want, wantCached) {
		o.count("probe.cached_ticket_on_the_wire", 1)
	} else if !bytes.Equal(ch.ExtBlock, want) && !bytes.Equal(ch.ExtBlock, wantAlt) {
		return Failf("c29.extensions", "extension block on the wire is not the concatenation of the configured extensions", "wire %x\nwant %x\nconfigured %+v", ch.ExtBlock, want, sc.Exts)
	}
	o.count("probe.extension_block_compared", 1)
	// the server's parser must read the configured values back
	if len(sc.SessionID) > 32 || sc.Repeat {
		// not a well-formed ClientHello any more (session id longer than 32 bytes / repeated extension types): what a
		// parser makes of it is not part of the property
		o.count("probe.readback_skipped_malformed_by_configuration", 1)
		return nil
	}
	sl := server.GetHandshakeLog()
	if sl == nil || sl.ClientHello == nil {
		if sErr != nil {
			o.count("probe.server_rejected_hello", 1)
			return Failf("c29.readback", "zcrypto's ClientHello parser rejected the fingerprinted hello", "server error %v; configured %+v", sErr, sc.Exts)
		}
		return nil
	}
	lch := sl.ClientHello
	o.count("probe.server_readback_compared", 1)
	if uint16(lch.Version) != sc.Version || !bytes.Equal(lch.Random, ch.Random) || !bytes.Equal(lch.SessionID, ch.SessionID) || len(lch.CipherSuites) != len(sc.Suites) {
		return Failf("c29.readback", "server-side parse of the hello differs from the configuration", "version %04x session id %x suites %v", uint16(lch.Version), lch.SessionID, lch.CipherSuites)
	}
	for _, e := range sc.Exts {
		switch e.Kind {
		case "sni", "sni_auto":
			name := sc.ServerName
			if e.Kind == "sni" {
				name = e.Names[0]
			}
			if lch.ServerName != name {
				return Failf("c29.readback", "server name read back differs from the configured one", "read %q configured %q", lch.ServerName, name)
			}
		case "alpn":
			if fmt.Sprint(lch.AlpnProtocols) != fmt.Sprint(e.Names) {
				return Failf("c29.readback", "ALPN list read back differs from the configured one", "read %q configured %q", lch.AlpnProtocols, e.Names)
			}
		case "curves":
			if len(lch.SupportedCurves) != len(e.U16) {
				return Failf("c29.readback", "curve list read back differs from the configured one", "read %v configured %v", lch.SupportedCurves, e.U16)
			}
			for i := range e.U16 {
				if uint16(lch.SupportedCurves[i]) != e.U16[i] {
					return Failf("c29.readback", "curve list read back differs from the configured one", "read %v configured %v", lch.SupportedCurves, e.U16)
				}
			}
		case "points":
			if len(lch.SupportedPoints) != len(e.Bytes) {
				return Failf("c29.readback", "point formats read back differ from the configured ones", "")
			}
		case "status":
			if !lch.OcspStapling {
				return Failf("c29.readback", "status_request not read back", "")
			}
		case "ticket":
			if !lch.TicketSupported {
				return Failf("c29.readback", "session ticket extension not read back", "")
			}
		case "ems":
			// the parser's view of extended_master_secret is not exposed by the server-side log: not observable here
		case "sct":
			if !lch.Scts {
				return Failf("c29.readback", "signed_certificate_timestamp not read back", "")
			}
		}
	}
	return nil
}

func shrinkC29(scAny any) []any {
	sc := scAny.(*c29Scenario)
	var out []any
	cp := func() *c29Scenario {
		c := *sc
		c.Exts = append([]fpExt(nil), sc.Exts...)
		c.Suites = append([]uint16(nil), sc.Suites...)
		return &c
	}
	for i := range sc.Exts {
		c := cp()
		c.Exts = dropIndex(c.Exts, i)
		out = append(out, c)
	}
	for i := range sc.Suites {
		if len(sc.Suites) > 1 {
			c := cp()
			c.Suites = dropIndex(c.Suites, i)
			out = append(out, c)
		}
	}
	for _, f := range []func(c *c29Scenario){
		func(c *c29Scenario) { c.Net = NetCfg{} },
		func(c *c29Scenario) { c.SessionID = nil },
		func(c *c29Scenario) { c.ClockOffset = 0 },
		func(c *c29Scenario) { c.CacheMode = 0 },
		func(c *c29Scenario) { c.Timestamp = false },
		func(c *c29Scenario) { c.Random = nil },
		func(c *c29Scenario) { c.Force = false },
	} {
		c := cp()
		f(c)
		out = append(out, c)
	}
	return out
}

func init() {
	register(&Prop{
		ID: "C29", Level: "exploration", Engine: "A (lockstep scheduler, simnet with wire capture, synctest bubble for time.Now)",
		Rule: "seeded ClientFingerprintConfigurations (version, fixed/fresh random with or without timestamp, session id, suite list, 0-9 built-in extensions with seeded contents, three session-cache modes, simulated clock offset); non-trivial = a ClientHello was captured and compared; distinct = hash of the scenario",
		Real:   []string{"ClientFingerprintConfiguration.marshal and every built-in extension encoder", "client handshake start-up with a fingerprint (session loading)", "zcrypto's ClientHello parser on the server side"},
		Stub:   []string{"transport", "clock (time.Now via synctest bubble)", "entropy (recorded seeded reader)", "harness extension encoders written from the RFCs"},
		Assume: []string{"one host name per SNI extension, at most one extension per type (RFC 6066 / RFC 8446 4.2)", "signature_algorithms restricted to RSA/DSA code points, which CheckImplemented accepts"},
		FaultKinds: []string{"probe.timestamp_checked", "probe.fresh_random_checked", "probe.extension_block_compared", "probe.server_readback_compared", "probe.fingerprint_session_cache", "probe.config_session_cache", "probe.server_rejected_hello", "probe.fingerprint_reused_for_second_host"},
		NotInjected: "fault-free by design: the property is about what is sent; clock position and entropy are the varied environment",
		Gen:         genC29, New: func() any { return &c29Scenario{} }, Exec: execC29, Shrink: shrinkC29,
		QuickRuns: 12000, ThoroughRuns: 1000000,
	})
}
