// Package props holds one simulated check per claimed property plus the worker
// protocol that /verif/bin/check drives.
package props

import (
	"encoding/json"
	"fmt"
	"os"
	"runtime"
	"sort"
	"strings"
	"testing"
	"time"

	"verifsim/kit"
)

// Failure is an oracle verdict against the real code.
type Failure struct {
	Oracle string `json:"oracle"` // stable id of the violated oracle clause
	Msg    string `json:"msg"`
	Sig    string `json:"sig"` // what fails (call site / input class), matched against known_findings.json
}

func Failf(oracle, sig, format string, a ...any) *Failure {
	return &Failure{Oracle: oracle, Sig: sig, Msg: fmt.Sprintf(format, a...)}
}

// Outcome of one simulated run.
type Outcome struct {
	Fail       *Failure
	LogHash    uint64 // hash of the event log (determinism fingerprint)
	Distinct   uint64 // identifies (interleaving, fault list, workload shape) for distinct counting
	Nontrivial bool
	Counters   map[string]int
	SimTime    time.Duration
	Steps      int
	LogLines   []string
	// FreeRunning marks an engine-B outcome: the fine interleaving is not under the simulator's control, so a
	// failure is confirmed by repeated replay in a fresh process instead of by in-process re-execution.
	FreeRunning bool
}

func (o *Outcome) count(k string, n int) {
	if o.Counters == nil {
		o.Counters = map[string]int{}
	}
	o.Counters[k] += n
}

// Prop is one property's simulation: generate → execute → check.
type Prop struct {
	ID          string
	Level       string
	Engine      string
	Rule        string
	Real        []string
	Stub        []string
	Assume      []string
	FaultKinds  []string // counter names (prefix "fault.") this property can inject; all reported even when zero
	NotInjected string   // fault kinds that do not exist for this property and why
	Gen         func(seed uint64, tier string) any
	// GenAt (optional) may derive the scenario from the position of the run in the batch instead of from its seed
	// alone, for systematic sweeps in the thorough tier; returning nil falls back to Gen.
	GenAt func(base uint64, i int, tier string) any
	New         func() any
	Exec        func(t *testing.T, sc any, keepLog bool) *Outcome
	Shrink      func(sc any) []any
	EngineB     bool // free-running engine: unconfirmed failures are settled by repeated fresh-process replay
	// PerRunBudget: quick/thorough number of runs wanted in total (driver splits among workers)
	QuickRuns    int
	ThoroughRuns int
}

var registry = map[string]*Prop{}

func register(p *Prop) { registry[p.ID] = p }

func cloneScenario(p *Prop, sc any) any {
	b, err := json.Marshal(sc)
	if err != nil {
		panic(err)
	}
	n := p.New()
	if err := json.Unmarshal(b, n); err != nil {
		panic(err)
	}
	return n
}

type violationOut struct {
	Oracle      string          `json:"oracle"`
	Msg         string          `json:"msg"`
	Sig         string          `json:"sig"`
	Seed        uint64          `json:"seed"`
	Replay      string          `json:"replay"`
	Scenario    json.RawMessage `json:"scenario"`
	ShrunkFrom  int             `json:"shrunk_from_bytes"`
	ShrinkExecs int             `json:"shrink_execs"`
	// FreeRunning: found by a free-running (engine B) run; which oracle trips first may depend on the fine
	// interleaving, so the fresh-process replay confirms "this scenario violates the property", not the oracle id
	FreeRunning bool `json:"free_running"`
}

type replayFile struct {
	Property string          `json:"property"`
	Oracle   string          `json:"oracle"`
	Sig      string          `json:"sig"`
	Msg      string          `json:"msg"`
	Seed     uint64          `json:"seed"`
	LogHash  string          `json:"log_hash"`
	Scenario json.RawMessage `json:"scenario"`
}

type summary struct {
	Property     string            `json:"property"`
	Runs         int               `json:"runs"`
	Nontrivial   int               `json:"nontrivial"`
	Distinct     []string          `json:"distinct"` // hashes of nontrivial runs
	Counters     map[string]int    `json:"counters"`
	SimSeconds   float64           `json:"sim_seconds"`
	Steps        int               `json:"steps"`
	Samples      []json.RawMessage `json:"samples"`
	Violations   []violationOut    `json:"violations"`
	SeedHashes   map[string]string `json:"seed_hashes"` // seed → event-log hash, for cross-process determinism diff
	SelfMismatch []string          `json:"self_mismatch"`
	WallS        float64           `json:"wall_s"`
	StoppedEarly bool              `json:"stopped_early"`
}

func envInt(name string, def int) int {
	v := os.Getenv(name)
	if v == "" {
		return def
	}
	var n int
	fmt.Sscan(v, &n)
	return n
}

func seedFor(base uint64, i int) uint64 {
	r := kit.NewRng(base*0x9e3779b97f4a7c15 + uint64(i)*0xda942042e4dd58b5 + 1)
	return r.Uint64() >> 1
}

// TestWorker is the entry point used by bin/check. It is a test only because
// testing/synctest needs a *testing.T.
func runWorker(t *testing.T) {
	id := os.Getenv("VERIF_PROP")
	if id == "" {
		t.Skip("VERIF_PROP not set")
	}
	p := registry[id]
	if p == nil {
		fmt.Printf("HARNESS-ERROR unknown property %s\n", id)
		os.Exit(2)
	}
	out := os.Getenv("VERIF_OUT")
	if rp := os.Getenv("VERIF_REPLAY"); rp != "" {
		replay(t, p, rp)
		return
	}
	tier := os.Getenv("VERIF_TIER")
	if tier == "" {
		tier = "quick"
	}
	base := uint64(envInt("VERIF_SEED", 1))
	i0 := envInt("VERIF_I0", 0)
	i1 := envInt("VERIF_I1", 10)
	budget := time.Duration(envInt("VERIF_BUDGET_S", 120)) * time.Second
	hashSeeds := envInt("VERIF_HASH_SEEDS", 8) // first K runs get their log hash exported
	selfSeeds := envInt("VERIF_SELF_SEEDS", 4) // first K runs are executed twice in-process
	replayDir := os.Getenv("VERIF_REPLAY_DIR")
	maxViol := envInt("VERIF_MAX_VIOL", 3)

	debug := os.Getenv("VERIF_DEBUG") != ""
	progress := os.Getenv("VERIF_PROGRESS")
	completed := false
	defer func() {
		if !completed {
			// the worker goroutine is being torn down (runtime.Goexit or panic) before the summary was written
			fmt.Fprintf(os.Stderr, "HARNESS-ERROR worker aborted before writing its summary\n%s\n", debugStack())
		}
	}()
	start := time.Now()
	sum := &summary{Property: id, Counters: map[string]int{}, SeedHashes: map[string]string{}}
	distinct := map[uint64]bool{}
	seenSig := map[string]bool{}
	for i := i0; i < i1; i++ {
		if time.Since(start) > budget {
			sum.StoppedEarly = true
			break
		}
		seed := seedFor(base, i)
		var sc any
		if p.GenAt != nil {
			sc = p.GenAt(base, i, tier)
		}
		if sc == nil {
			sc = p.Gen(seed, tier)
		}
		if debug {
			fmt.Fprintf(os.Stderr, "DEBUG run %d seed %d start\n", i, seed)
		}
		if progress != "" {
			// if the code under test kills the process (e.g. "fatal error: concurrent map writes"), the driver
			// turns this file into the replay file of a crash violation
			sb, _ := json.Marshal(sc)
			pb, _ := json.Marshal(replayFile{Property: id, Oracle: strings.ToLower(id) + ".crash", Sig: "process killed by a fatal runtime error", Seed: seed, Scenario: sb})
			os.WriteFile(progress, pb, 0o644)
		}
		o := safeExec(p, t, sc, false)
		if debug {
			fmt.Fprintf(os.Stderr, "DEBUG run %d done fail=%v\n", i, o.Fail != nil)
		}
		sum.Runs++
		sum.SimSeconds += o.SimTime.Seconds()
		sum.Steps += o.Steps
		for k, v := range o.Counters {
			sum.Counters[k] += v
		}
		if o.Nontrivial {
			sum.Nontrivial++
			distinct[o.Distinct] = true
		}
		free := p.EngineB || o.FreeRunning
		if i-i0 < hashSeeds && !(free && o.Fail != nil) {
			sum.SeedHashes[fmt.Sprint(seed)] = fmt.Sprintf("%016x", o.LogHash)
		}
		if i-i0 < selfSeeds {
			o2 := safeExec(p, t, cloneScenario(p, sc), false)
			switch {
			case o2.LogHash == o.LogHash:
			case free && (o.Fail != nil || o2.Fail != nil):
				// Free-running engine: the event log of a run in which the code under test violates an oracle
				// (e.g. a data race delivering entries under wrong indices) legitimately depends on the fine
				// interleaving. The failure itself is what gets reported, after confirmation by fresh-process
				// replay; it is not a determinism defect of the harness.
				sum.Counters["selfcheck.mismatch_with_failure"]++
				delete(sum.SeedHashes, fmt.Sprint(seed))
				if o.Fail == nil {
					o = o2
				}
			default:
				sum.SelfMismatch = append(sum.SelfMismatch, fmt.Sprint(seed))
			}
		}
		if len(sum.Samples) < 2 && o.Nontrivial {
			b, _ := json.Marshal(sc)
			if len(b) < 6000 {
				sum.Samples = append(sum.Samples, b)
			}
		}
		if o.Fail != nil {
			key := o.Fail.Oracle + "|" + o.Fail.Sig
			if seenSig[key] {
				sum.Counters["violations.duplicate_signature"]++
				continue
			}
			seenSig[key] = true
			v := handleFailure(t, p, sc, o, seed, replayDir)
			sum.Violations = append(sum.Violations, v)
			if len(sum.Violations) >= maxViol {
				sum.StoppedEarly = true
				break
			}
		}
	}
	for h := range distinct {
		sum.Distinct = append(sum.Distinct, fmt.Sprintf("%016x", h))
	}
	sort.Strings(sum.Distinct)
	sum.WallS = time.Since(start).Seconds()
	completed = true
	b, _ := json.Marshal(sum)
	if out == "" {
		fmt.Println(string(b))
	} else if err := os.WriteFile(out, b, 0o644); err != nil {
		fmt.Printf("HARNESS-ERROR %v\n", err)
		os.Exit(2)
	}
}

// handleFailure confirms, minimises and writes the replay file.
func handleFailure(t *testing.T, p *Prop, sc any, o *Outcome, seed uint64, dir string) violationOut {
	orig, _ := json.Marshal(sc)
	best := cloneScenario(p, sc)
	v := violationOut{Oracle: o.Fail.Oracle, Msg: o.Fail.Msg, Sig: o.Fail.Sig, Seed: seed, ShrunkFrom: len(orig), FreeRunning: o.FreeRunning || p.EngineB}
	if strings.HasSuffix(o.Fail.Oracle, ".race") || o.FreeRunning {
		// The race detector reports a given race once per process, so a race cannot be confirmed or
		// minimised by re-executing here: the replay file is written as is and the driver confirms it
		// in a fresh process before anything is reported.
		b, _ := json.MarshalIndent(best, "", " ")
		v.Scenario = b
		writeReplay(p, &v, seed, o.LogHash, dir)
		return v
	}
	bestOut := safeExec(p, t, cloneScenario(p, best), false)
	if bestOut.Fail == nil || bestOut.Fail.Oracle != o.Fail.Oracle {
		if p.EngineB {
			// free-running engine: the failure may depend on the fine interleaving; leave the verdict to
			// repeated replay in a fresh process
			b, _ := json.MarshalIndent(best, "", " ")
			v.Scenario = b
			writeReplay(p, &v, seed, o.LogHash, dir)
			return v
		}
		// not reproducible in-process: a harness determinism defect, reported as such by the driver
		v.Oracle = "HARNESS-NONDETERMINISM:" + o.Fail.Oracle
		v.Scenario = orig
		return v
	}
	execs := 0
	deadline := time.Now().Add(60 * time.Second)
	if p.Shrink != nil {
		progress := true
		for progress && execs < 400 && time.Now().Before(deadline) {
			progress = false
			for _, cand := range p.Shrink(best) {
				if execs >= 400 || !time.Now().Before(deadline) {
					break
				}
				execs++
				co := safeExec(p, t, cloneScenario(p, cand), false)
				if co.Fail != nil && co.Fail.Oracle == o.Fail.Oracle {
					best = cand
					bestOut = co
					progress = true
					break
				}
			}
		}
	}
	v.ShrinkExecs = execs
	v.Msg = bestOut.Fail.Msg
	v.Sig = bestOut.Fail.Sig
	b, _ := json.MarshalIndent(best, "", " ")
	v.Scenario = b
	writeReplay(p, &v, seed, bestOut.LogHash, dir)
	return v
}

func writeReplay(p *Prop, v *violationOut, seed uint64, logHash uint64, dir string) {
	rf := replayFile{Property: p.ID, Oracle: v.Oracle, Sig: v.Sig, Msg: v.Msg, Seed: seed, LogHash: fmt.Sprintf("%016x", logHash), Scenario: v.Scenario}
	h := kit.NewHash64()
	h.Write(v.Scenario)
	if dir != "" {
		os.MkdirAll(dir, 0o755)
		path := fmt.Sprintf("%s/%s-%d-%08x.json", dir, p.ID, seed, uint32(h.Sum()))
		rb, _ := json.MarshalIndent(rf, "", " ")
		if err := os.WriteFile(path, rb, 0o644); err == nil {
			v.Replay = path
		}
	}
}

func replay(t *testing.T, p *Prop, path string) {
	b, err := os.ReadFile(path)
	if err != nil {
		fmt.Printf("HARNESS-ERROR %v\n", err)
		os.Exit(2)
	}
	var rf replayFile
	if err := json.Unmarshal(b, &rf); err != nil {
		fmt.Printf("HARNESS-ERROR %v\n", err)
		os.Exit(2)
	}
	sc := p.New()
	if err := json.Unmarshal(rf.Scenario, sc); err != nil {
		fmt.Printf("HARNESS-ERROR %v\n", err)
		os.Exit(2)
	}
	o := safeExec(p, t, sc, os.Getenv("VERIF_VERBOSE") != "")
	if strings.HasSuffix(rf.Oracle, ".crash") {
		// the original run killed its process; if this loop survives, the crash did not reproduce
		for i := 0; i < 60; i++ {
			sc2 := p.New()
			json.Unmarshal(rf.Scenario, sc2)
			safeExec(p, t, sc2, false)
		}
		fmt.Printf("REPLAY-OK property=%s crash did not reproduce in 60 repetitions\n", p.ID)
		return
	}
	if strings.HasSuffix(rf.Oracle, ".race") || o.FreeRunning || p.EngineB {
		// A race report depends on which of the schedules admitted by the coarse (simulated-time)
		// schedule the OS threads take: repeat the scenario until the detector reports the pair again.
		var other *Outcome // a repetition that failed another oracle of the property
		for i := 0; i < 40 && (o.Fail == nil || o.Fail.Oracle != rf.Oracle); i++ {
			if o.Fail != nil && other == nil {
				other = o
			}
			sc2 := p.New()
			json.Unmarshal(rf.Scenario, sc2)
			o = safeExec(p, t, sc2, false)
		}
		if (o.Fail == nil || o.Fail.Oracle != rf.Oracle) && other != nil {
			o = other
		}
	}
	for _, l := range o.LogLines {
		fmt.Println("LOG", l)
	}
	if o.Fail != nil {
		fmt.Printf("REPLAY-FAIL property=%s oracle=%s sig=%q loghash=%016x msg=%q\n", p.ID, o.Fail.Oracle, o.Fail.Sig, o.LogHash, o.Fail.Msg)
	} else {
		fmt.Printf("REPLAY-OK property=%s loghash=%016x\n", p.ID, o.LogHash)
	}
}

// TestDescribe prints the static description of a property for the driver.
func runDescribe(t *testing.T) {
	id := os.Getenv("VERIF_PROP")
	p := registry[id]
	if p == nil {
		t.Skip()
	}
	d := map[string]any{"id": p.ID, "level": p.Level, "engine": p.Engine, "rule": p.Rule, "real": p.Real, "stub": p.Stub,
		"assume": p.Assume, "fault_kinds": p.FaultKinds, "not_injected": p.NotInjected, "quick_runs": p.QuickRuns, "thorough_runs": p.ThoroughRuns}
	b, _ := json.Marshal(d)
	fmt.Println("DESCRIBE " + string(b))
}

// safeExec runs one scenario; a panic that unwinds into the harness goroutine (history-mode properties call the code
// under test directly) becomes an oracle failure when the panic came out of the tree under test.
func safeExec(p *Prop, t *testing.T, sc any, keepLog bool) (o *Outcome) {
	defer func() {
		if r := recover(); r != nil {
			stack := debugStack()
			if bp, ok := r.(*kit.BubblePanic); ok {
				r, stack = bp.Val, bp.Stack
			}
			if !strings.Contains(stack, kit.RepoPrefix()) {
				panic(r) // a bug of the harness itself: let the worker die, the driver reports harness trouble
			}
			h := kit.NewHash64()
			h.WriteString(fmt.Sprint(r))
			o = &Outcome{Counters: map[string]int{}, Nontrivial: true, LogHash: h.Sum(), Distinct: h.Sum(),
				Fail: Failf(strings.ToLower(p.ID)+".panic", panicSite(stack), "panic: %v\n%s", r, stack)}
		}
	}()
	return p.Exec(t, sc, keepLog)
}

// removeAt helpers for shrinkers.
func dropIndex[T any](s []T, i int) []T {
	o := make([]T, 0, len(s)-1)
	o = append(o, s[:i]...)
	return append(o, s[i+1:]...)
}

func debugStack() string {
	buf := make([]byte, 1<<16)
	return string(buf[:runtime.Stack(buf, false)])
}
