package props

import (
	"fmt"
	"testing"
	"time"

	"github.com/zmap/zcrypto/tls"
	zx509 "github.com/zmap/zcrypto/x509"
	"verifsim/kit"
)

func TestSmoke(t *testing.T) {
	root := kit.MakeCert(kit.CertSpec{Name: "Sim Root", Key: "p256_0", IsCA: true, MaxPathLen: -1})
	leaf := kit.MakeCert(kit.CertSpec{Name: "server.sim.test", Key: "rsa0", Issuer: root, DNSNames: []string{"server.sim.test"}, Serial: 2})
	pool := zx509.NewCertPool()
	rc, err := zx509.ParseCertificate(root.DER)
	if err != nil {
		t.Fatal(err)
	}
	pool.AddCert(rc)
	for seed := uint64(1); seed <= 3; seed++ {
		for rep := 0; rep < 2; rep++ {
			var hash uint64
			start := time.Now()
			kit.Bubble(t, func() {
				rng := kit.NewRng(seed)
				s := kit.NewSim(rng)
				s.InBubble = true
				np := kit.NetParams{SegMode: 1, MaxSeg: 100, LatencyMin: time.Millisecond, LatencyMax: 30 * time.Millisecond, ShortReads: true}
				cc, sc := s.Pipe("c", "s", np, np)
				scfg := &tls.Config{Certificates: []tls.Certificate{{Certificate: [][]byte{leaf.DER}, PrivateKey: kit.TLSKey("rsa0")}}, Rand: kit.NewReader(rng.Derive("srand")), Time: s.Now}
				ccfg := &tls.Config{RootCAs: pool, ServerName: "server.sim.test", Rand: kit.NewReader(rng.Derive("crand")), Time: s.Now}
				client := tls.Client(cc, ccfg)
				server := tls.Server(sc, scfg)
				s.Go("client", func() {
					if err := client.Handshake(); err != nil {
						s.Logf("client hs err %v", err)
						return
					}
					client.Write([]byte("hello"))
					buf := make([]byte, 10)
					n, err := client.Read(buf)
					s.Logf("client got %q %v", buf[:n], err)
					client.Close()
				})
				s.Go("server", func() {
					if err := server.Handshake(); err != nil {
						s.Logf("server hs err %v", err)
						return
					}
					buf := make([]byte, 10)
					n, err := server.Read(buf)
					s.Logf("server got %q %v", buf[:n], err)
					server.Write([]byte("world"))
					n, err = server.Read(buf)
					s.Logf("server got %q %v", buf[:n], err)
					server.Close()
				})
				s.KeepLog = true
				s.Run()
				hash = s.LogHash()
				st := client.ConnectionState()
				fmt.Printf("seed %d steps %d simtime %v vers %x suite %x dead %v hash %x\n", seed, s.Steps, s.Elapsed(), st.Version, st.CipherSuite, s.Deadlock, hash)
				if rep == 0 && seed == 1 {
					for _, l := range s.LogLines[len(s.LogLines)-12:] {
						fmt.Println(l)
					}
				}
			})
			_ = start
		}
	}
}
