package props

import (
	"fmt"
	"testing"

	"github.com/zmap/zcrypto/tls"
	"verifsim/kit"
)

// C35 (history part): operation histories on tls.NewLRUClientSessionCache
// against a bounded-LRU reference model.

type lruOp struct {
	Op  string `json:"op"` // put | get | putnil | reput (store the object already cached under the key again)
	Key int    `json:"key"`
}

type lruScenario struct {
	Capacity int     `json:"capacity"` // <1 exercises the documented default
	Keys     int     `json:"keys"`
	Ops      []lruOp `json:"ops"`
	// concurrent mode (engine B): one operation list per client goroutine
	Conc [][]lruConcOp `json:"conc,omitempty"`
	// NoStamps: the client goroutines share nothing with each other or the harness (no global event counter), so
	// that the harness adds no happens-before edge between two cache calls; decided by the race detector and
	// an attribution oracle instead of porcupine.
	NoStamps bool `json:"no_stamps,omitempty"`
	EmptyKey bool `json:"empty_key,omitempty"` // key index 0 is the empty string
}

// lruModel: most-recently-used first.
type lruModel struct {
	cap   int
	order []int       // keys, MRU first
	val   map[int]int // key → value id
}

func (m *lruModel) touch(k int) {
	for i, x := range m.order {
		if x == k {
			m.order = append(m.order[:i], m.order[i+1:]...)
			break
		}
	}
	m.order = append([]int{k}, m.order...)
}

func (m *lruModel) put(k, v int) {
	if _, ok := m.val[k]; !ok && len(m.order) >= m.cap {
		last := m.order[len(m.order)-1]
		m.order = m.order[:len(m.order)-1]
		delete(m.val, last)
	}
	m.val[k] = v
	m.touch(k)
}

func (m *lruModel) del(k int) {
	if _, ok := m.val[k]; !ok {
		return
	}
	delete(m.val, k)
	for i, x := range m.order {
		if x == k {
			m.order = append(m.order[:i], m.order[i+1:]...)
			break
		}
	}
}

func (m *lruModel) get(k int) (int, bool) {
	v, ok := m.val[k]
	if ok {
		m.touch(k)
	}
	return v, ok
}

// "If capacity is < 1, a default capacity is used": the default's value is not
// documented, so the model only assumes it is larger than the key universe.
const lruDefaultCapacity = 1 << 30

func genLRU(seed uint64, tier string) any {
	r := kit.NewRng(seed)
	sc := &lruScenario{EmptyKey: r.Chance(1, 3)}
	if r.Chance(1, 16) {
		genLRUConc(r, sc)
		sc.NoStamps = r.Chance(1, 2)
		return sc
	}
	switch r.Intn(10) {
	case 0:
		sc.Capacity = -r.Intn(2) // 0 or -1 … default capacity
		sc.Keys = 5
	default:
		sc.Capacity = r.Range(1, 4)
		sc.Keys = r.Range(sc.Capacity, sc.Capacity+3)
		if sc.Keys > 6 {
			sc.Keys = 6
		}
	}
	n := r.Range(1, 30)
	nilWeight := r.Intn(4) // swarm: some runs have no nil puts at all
	w := []int{4, 3, nilWeight, r.Intn(3)}
	for i := 0; i < n; i++ {
		op := []string{"put", "get", "putnil", "reput"}[r.Pick(w)]
		sc.Ops = append(sc.Ops, lruOp{Op: op, Key: r.Intn(sc.Keys)})
	}
	return sc
}

// keyName maps a key index to a session key; with emptyKey, index 0 is the empty string (a legal key: the cache is
// keyed by whatever the client's CacheKey / server name yields).
func keyName(k int, emptyKey bool) string {
	if k == 0 && emptyKey {
		return ""
	}
	return fmt.Sprintf("key-%d", k)
}

// execLRU runs the history under a watcher that decides "a cache operation can never return because the cache's
// mutex was left locked" exactly (see kit.WatchMutexStall) — a real sync.Mutex wait is invisible to synctest.
func execLRU(t *testing.T, scAny any, keepLog bool) *Outcome {
	var o *Outcome
	var pv any
	stall := kit.WatchMutexStall("tls.(*lruSessionCache)", func() {
		defer func() { pv = recover() }()
		o = execLRU1(t, scAny, keepLog)
	})
	if pv != nil {
		panic(pv)
	}
	if stall != "" {
		h := kit.NewHash64()
		h.WriteString(fmt.Sprintf("%+v", scAny))
		return &Outcome{Counters: map[string]int{"probe.mutex_stall_decided": 1}, Nontrivial: true, Distinct: h.Sum(), LogHash: h.Sum(),
			Fail: Failf("lru.blocked", "a cache operation can never return: the cache's mutex is held by no running operation", "%s", stall)}
	}
	return o
}

func execLRU1(t *testing.T, scAny any, keepLog bool) *Outcome {
	sc := scAny.(*lruScenario)
	if len(sc.Conc) > 0 {
		return execLRUConc(t, sc)
	}
	o := &Outcome{Counters: map[string]int{}}
	h := kit.NewHash64()
	capacity := sc.Capacity
	if capacity < 1 {
		capacity = lruDefaultCapacity
	}
	model := &lruModel{cap: capacity, val: map[int]int{}}
	cache := tls.NewLRUClientSessionCache(sc.Capacity)
	ids := map[*tls.ClientSessionState]int{}
	var states []*tls.ClientSessionState
	// apply replays the first n operations on a fresh cache (used for non-perturbing probes)
	// valOf[i]: index of the session object operation i stores ("reput" stores the very object that is cached
	// under the key at that moment, if any; a cache must treat that like any other Put)
	valOf := make([]int, len(sc.Ops))
	apply := func(c tls.ClientSessionCache, n int) {
		for i, op := range sc.Ops[:n] {
			switch op.Op {
			case "put", "reput":
				c.Put(keyName(op.Key, sc.EmptyKey), states[valOf[i]])
			case "putnil":
				c.Put(keyName(op.Key, sc.EmptyKey), nil)
			case "get":
				c.Get(keyName(op.Key, sc.EmptyKey))
			}
		}
	}
	nPut := 0
	{
		pre := &lruModel{cap: capacity, val: map[int]int{}}
		for i, op := range sc.Ops {
			switch op.Op {
			case "put":
				valOf[i] = nPut
				nPut++
				pre.put(op.Key, valOf[i]+1)
			case "reput":
				if v, ok := pre.val[op.Key]; ok {
					valOf[i] = v - 1
					o.Counters["probe.reput_same_object"]++
				} else {
					valOf[i] = nPut
					nPut++
				}
				pre.put(op.Key, valOf[i]+1)
			case "putnil":
				pre.del(op.Key)
			case "get":
				pre.get(op.Key)
			}
		}
	}
	for i := 0; i < nPut; i++ {
		s := &tls.ClientSessionState{}
		states = append(states, s)
		ids[s] = i + 1
	}
	evictions := 0
	for i, op := range sc.Ops {
		switch op.Op {
		case "put", "reput":
			before := len(model.order)
			_, had := model.val[op.Key]
			cache.Put(keyName(op.Key, sc.EmptyKey), states[valOf[i]])
			model.put(op.Key, valOf[i]+1)
			if !had && before >= model.cap {
				evictions++
			}
		case "putnil":
			if _, had := model.val[op.Key]; !had {
				o.Counters["probe.putnil_absent"]++
				if len(model.order) >= model.cap {
					o.Counters["probe.putnil_absent_full"]++
				}
			} else {
				o.Counters["probe.putnil_present"]++
			}
			cache.Put(keyName(op.Key, sc.EmptyKey), nil)
			model.del(op.Key)
		case "get":
			got, ok := cache.Get(keyName(op.Key, sc.EmptyKey))
			want, wok := model.get(op.Key)
			h.WriteString(fmt.Sprintf("get %d %v %d", op.Key, ok, ids[got]))
			if ok != wok || (ok && ids[got] != want) || (ok && got == nil) {
				sig := "Get"
				if ok && got == nil {
					sig = "Get returns (nil,true) after Put(absent,nil)"
				}
				o.Fail = Failf("lru.get", sig, "op %d Get(%d) = (value#%d,%v), model (value#%d,%v)", i, op.Key, ids[got], ok, want, wok)
			}
		}
		if o.Fail != nil {
			break
		}
		// probe every key on a replayed copy
		cp := tls.NewLRUClientSessionCache(sc.Capacity)
		apply(cp, i+1)
		present := 0
		for k := 0; k < sc.Keys; k++ {
			got, ok := cp.Get(keyName(k, sc.EmptyKey))
			want, wok := model.val[k]
			if ok {
				present++
			}
			h.WriteString(fmt.Sprintf("probe %d %v %d", k, ok, ids[got]))
			if ok != wok || (ok && ids[got] != want) {
				sig := "state after " + op.Op
				if op.Op == "putnil" {
					sig = "Put(k,nil) has an effect beyond removing k"
				}
				o.Fail = Failf("lru.state", sig, "after op %d (%s %d): key %d cache=(value#%d,%v) model=(value#%d,%v)", i, op.Op, op.Key, k, ids[got], ok, want, wok)
				break
			}
		}
		if o.Fail == nil && present > capacity {
			o.Fail = Failf("lru.capacity", "capacity", "after op %d: %d keys present, capacity %d", i, present, capacity)
		}
		if o.Fail != nil {
			break
		}
	}
	o.Counters["probe.evictions"] += evictions
	o.Counters["ops"] += len(sc.Ops)
	o.LogHash = h.Sum()
	sh := kit.NewHash64()
	sh.WriteU64(uint64(sc.Capacity))
	for _, op := range sc.Ops {
		sh.WriteString(op.Op)
		sh.WriteU64(uint64(op.Key))
	}
	o.Distinct = sh.Sum()
	o.Nontrivial = evictions > 0 || o.Counters["probe.putnil_present"] > 0
	o.Steps = len(sc.Ops)
	return o
}

func shrinkLRU(scAny any) []any {
	sc := scAny.(*lruScenario)
	var out []any
	if len(sc.Conc) > 0 {
		return nil
	}
	for i := len(sc.Ops) - 1; i >= 0; i-- {
		c := *sc
		c.Ops = dropIndex(sc.Ops, i)
		out = append(out, &c)
	}
	for i, op := range sc.Ops {
		if op.Key > 0 {
			c := *sc
			c.Ops = append([]lruOp(nil), sc.Ops...)
			c.Ops[i].Key = op.Key - 1
			out = append(out, &c)
		}
	}
	if sc.Capacity > 1 {
		c := *sc
		c.Capacity--
		out = append(out, &c)
	}
	return out
}

func init() {
	register(&Prop{
		ID: "C35", Level: "exploration", Engine: "H (single-task history vs reference model) + B (concurrent clients, porcupine, race detector)",
		Rule:        "seeded operation histories (put/get/put-nil over <=6 keys, capacity 1..4 or default); a run is non-trivial when at least one eviction or one removal of a present key happened; distinct = hash of (capacity, operation list)",
		Real:        []string{"tls.NewLRUClientSessionCache", "lruSessionCache.Put", "lruSessionCache.Get"},
		Stub:        []string{"ClientSessionState values are empty structs identified by pointer"},
		Assume:      []string{"Get counts as a use for recency (LRU)", "the undocumented default capacity exceeds 6 keys"},
		FaultKinds: []string{"probe.putnil_absent", "probe.putnil_absent_full", "probe.putnil_present", "probe.evictions",
			"probe.conc_histories", "probe.conc_operations", "probe.linearizable_histories", "probe.linearizability_inconclusive", "probe.race_reports"},
		NotInjected: "no transport, clock or storage is involved in this property; the fault dimension is what callers may legally pass (nil values, absent keys, capacity < 1)",
		Gen:         genLRU, New: func() any { return &lruScenario{} }, Exec: execLRU, Shrink: shrinkLRU,
		QuickRuns: 40000, ThoroughRuns: 4000000,
	})
}
