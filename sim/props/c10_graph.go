package props

import (
	"encoding/json"
	"encoding/pem"
	"fmt"
	"io"
	"sort"
	"testing"

	"github.com/zmap/zcrypto/verifier"
	"verifsim/kit"
)

// C10: a certificate set is delivered to verifier.Graph as messages with
// reordering, duplication and re-delivery as root / non-root. After every
// delivery the graph (through the read-only verif accessors) is compared with
// a model determined by the delivered set alone; two delivery orders of the
// same multiset must converge.

type gDelivery struct {
	Cert int  `json:"cert"`
	Root bool `json:"root"`
	// Chunk > 0: the certificate arrives as a PEM stream through Graph.AppendFromPEMErr, read in pieces of at most
	// Chunk bytes; Junk adds other material to the stream (1 text before the block, 2 an unparseable CERTIFICATE block
	// before it, 3 a block of another type after it, 4 text after it without a final newline); EOFData makes the last
	// Read return its bytes together with io.EOF
	Chunk   int  `json:"chunk,omitempty"`
	Junk    int  `json:"junk,omitempty"`
	EOFData bool `json:"eof_data,omitempty"`
}

// chunkReader hands out a byte stream in pieces.
type chunkReader struct {
	data    []byte
	chunk   int
	eofData bool
}

func (c *chunkReader) Read(p []byte) (int, error) {
	if len(c.data) == 0 {
		return 0, io.EOF
	}
	n := c.chunk
	if n > len(p) {
		n = len(p)
	}
	if n > len(c.data) {
		n = len(c.data)
	}
	copy(p, c.data[:n])
	c.data = c.data[n:]
	if len(c.data) == 0 && c.eofData {
		return n, io.EOF
	}
	return n, nil
}

type c10Scenario struct {
	Seed   uint64      `json:"seed"`
	PKI    *gPKI       `json:"pki"`
	OrderA []gDelivery `json:"order_a"`
	OrderB []gDelivery `json:"order_b"`
}

func genC10(seed uint64, tier string) any {
	r := kit.NewRng(seed)
	sc := &c10Scenario{Seed: seed, PKI: genPKI(r, 8, false)}
	n := len(sc.PKI.Certs)
	var base []gDelivery
	for i := 0; i < n; i++ {
		if r.Chance(1, 8) {
			continue // dangling issuer: this certificate is never delivered
		}
		root := sc.PKI.Certs[i].Issuer == sc.PKI.Certs[i].Subject && r.Chance(4, 5)
		d := gDelivery{Cert: i, Root: root}
		if r.Chance(1, 4) {
			d.Chunk = []int{1, 2, 7, 63, 64, 65, 500, 4096}[r.Intn(8)]
			d.Junk = r.Pick([]int{3, 1, 1, 1, 1})
			d.EOFData = r.Bool()
		}
		base = append(base, d)
	}
	// faults of the delivery channel: duplicates and re-delivery with the other root flag
	for k := r.Intn(len(base) + 2); k > 0 && len(base) > 0 && len(base) < 40; k-- {
		d := base[r.Intn(len(base))]
		if r.Chance(1, 2) {
			d.Root = !d.Root && r.Chance(1, 3)
		}
		base = append(base, d)
	}
	perm := func() []gDelivery {
		o := make([]gDelivery, len(base))
		for i, j := range r.Perm(len(base)) {
			o[i] = base[j]
		}
		return o
	}
	sc.OrderA, sc.OrderB = perm(), perm()
	return sc
}

// c10State is the canonical, order-independent description of a graph.
type c10State struct {
	Nodes  []string          // subject+key fingerprints
	Edges  []string          // certificate fingerprints
	Roots  []string          // certificate fingerprints marked root
	Issuer map[string]string // edge fp → issuer node fp ("" = none)
}

func c10Check(p *gPKI, g *verifier.Graph, delivered map[int]bool, roots map[int]bool, step int, o *Outcome) (*c10State, *Failure) {
	st := &c10State{Issuer: map[string]string{}}
	// --- model
	wantNodes := map[string]int{} // node fp → ident
	for i := range delivered {
		b := p.build(i)
		wantNodes[string(b.Z.SPKISubjectFingerprint)] = p.Certs[i].Subject
	}
	// --- nodes
	gotNodes := map[string]*verifier.GraphNode{}
	for _, n := range g.Nodes() {
		fp := string(n.SubjectAndKey.Fingerprint)
		if gotNodes[fp] != nil {
			return nil, Failf("c10.nodes", "two nodes for one (subject, key) pair", "step %d", step)
		}
		gotNodes[fp] = n
		if g.FindNode(n.SubjectAndKey.Fingerprint) != n {
			return nil, Failf("c10.nodes", "FindNode does not return the node listed by Nodes", "step %d", step)
		}
	}
	if len(gotNodes) != len(wantNodes) {
		return nil, Failf("c10.nodes", "node count differs from the number of distinct (subject, key) pairs", "step %d: graph %d model %d", step, len(gotNodes), len(wantNodes))
	}
	for fp := range wantNodes {
		if gotNodes[fp] == nil {
			return nil, Failf("c10.nodes", "node missing for a delivered (subject, key) pair", "step %d", step)
		}
		st.Nodes = append(st.Nodes, fmt.Sprintf("%x", fp))
	}
	// --- edges
	edges := g.Edges()
	if len(edges) != len(delivered) {
		return nil, Failf("c10.edges", "edge count differs from the number of distinct certificates", "step %d: graph %d model %d", step, len(edges), len(delivered))
	}
	byFP := map[string]*verifier.GraphEdge{}
	for _, e := range edges {
		byFP[string(e.Certificate.FingerprintSHA256)] = e
	}
	danglingWant := map[string]map[string]bool{}
	for i := range delivered {
		b := p.build(i)
		e := byFP[string(b.Z.FingerprintSHA256)]
		if e == nil || g.FindEdge(b.Z.FingerprintSHA256) != e {
			return nil, Failf("c10.edges", "edge missing for a delivered certificate", "step %d cert %d", step, i)
		}
		st.Edges = append(st.Edges, b.FP)
		v := verifier.VerifEdge(e)
		if v.Root != roots[i] || g.IsRoot(b.Z) != roots[i] {
			return nil, Failf("c10.roots", "root flag differs from 'ever added as root'", "step %d cert %d: graph %v model %v", step, i, v.Root, roots[i])
		}
		if roots[i] {
			st.Roots = append(st.Roots, b.FP)
		}
		if v.Child == nil || string(v.Child.SubjectAndKey.Fingerprint) != string(b.Z.SPKISubjectFingerprint) {
			return nil, Failf("c10.adjacency", "edge's child is not the node of the certificate's subject and key", "step %d cert %d", step, i)
		}
		// issuer candidates by the model: nodes with the issuer's name whose key verifies the certificate (standard library)
		issuerName := p.Idents[p.Certs[i].Issuer].Name
		cands := map[string]bool{}
		for nfp, id := range wantNodes {
			if p.Idents[id].Name == issuerName && p.verifies(i, id) {
				cands[nfp] = true
			}
		}
		if v.Issuer == nil {
			if len(cands) > 0 {
				return nil, Failf("c10.issuer", "edge has no issuer although a verifying node with the issuer's name exists (fix-up missed)", "step %d cert %d (%s → %s)", step, i, issuerName, p.Idents[p.Certs[i].Subject].Name)
			}
			ri := string(b.Z.RawIssuer)
			if danglingWant[ri] == nil {
				danglingWant[ri] = map[string]bool{}
			}
			danglingWant[ri][b.FP] = true
			st.Issuer[b.FP] = ""
			o.count("probe.dangling_edges_seen", 1)
		} else {
			ifp := string(v.Issuer.SubjectAndKey.Fingerprint)
			if !cands[ifp] {
				return nil, Failf("c10.issuer", "edge's issuer is not a node with the issuer name whose key verifies the certificate", "step %d cert %d", step, i)
			}
			if gotNodes[ifp] != v.Issuer {
				return nil, Failf("c10.issuer", "edge's issuer is not a node of the graph", "step %d cert %d", step, i)
			}
			st.Issuer[b.FP] = fmt.Sprintf("%x", ifp)
			// mutual adjacency
			inChildren, inParents := false, false
			for _, x := range verifier.VerifNodeChildren(v.Issuer)[v.Child] {
				if x == e {
					inChildren = true
				}
			}
			for _, x := range verifier.VerifNodeParents(v.Child)[v.Issuer] {
				if x == e {
					inParents = true
				}
			}
			if !inChildren || !inParents {
				return nil, Failf("c10.adjacency", "issuer/child adjacency maps do not both contain the edge", "step %d cert %d: in issuer.children %v, in child.parents %v", step, i, inChildren, inParents)
			}
		}
	}
	// the per-node list of issuer-less parent edges holds exactly the edges to that node that have no issuer
	for _, n := range gotNodes {
		want := map[*verifier.GraphEdge]bool{}
		for _, e := range edges {
			if v := verifier.VerifEdge(e); v.Child == n && v.Issuer == nil {
				want[e] = true
			}
		}
		got := verifier.VerifNodeDanglingParents(n)
		for _, e := range got {
			if !want[e] {
				return nil, Failf("c10.adjacency", "a node lists an edge as issuer-less parent although the edge has an issuer (or belongs to another node)", "step %d", step)
			}
			delete(want, e)
		}
		if len(want) > 0 || len(got) != len(dedupEdges(got)) {
			return nil, Failf("c10.adjacency", "an issuer-less edge is missing from (or repeated in) its child's list of issuer-less parents", "step %d", step)
		}
	}
	// adjacency maps contain nothing else
	for _, n := range gotNodes {
		for child, es := range verifier.VerifNodeChildren(n) {
			for _, e := range es {
				v := verifier.VerifEdge(e)
				if v.Issuer != n || v.Child != child || byFP[string(e.Certificate.FingerprintSHA256)] != e {
					return nil, Failf("c10.adjacency", "a children map holds an edge whose issuer/child do not match", "step %d", step)
				}
			}
		}
		for parent, es := range verifier.VerifNodeParents(n) {
			for _, e := range es {
				v := verifier.VerifEdge(e)
				if v.Child != n || v.Issuer != parent || byFP[string(e.Certificate.FingerprintSHA256)] != e {
					return nil, Failf("c10.adjacency", "a parents map holds an edge whose issuer/child do not match", "step %d", step)
				}
			}
		}
	}
	// dangling index = exactly the issuer-less edges
	got := verifier.VerifDangling(g)
	for ri, es := range got {
		for _, e := range es {
			fp := fmt.Sprintf("%x", string(e.Certificate.FingerprintSHA256))
			if !danglingWant[ri][fp] {
				return nil, Failf("c10.dangling", "dangling index holds an edge that has an issuer (stale entry)", "step %d", step)
			}
			delete(danglingWant[ri], fp)
		}
	}
	for _, m := range danglingWant {
		if len(m) > 0 {
			return nil, Failf("c10.dangling", "an issuer-less edge is missing from the dangling index", "step %d", step)
		}
	}
	sort.Strings(st.Nodes)
	sort.Strings(st.Edges)
	sort.Strings(st.Roots)
	return st, nil
}

func dedupEdges(l []*verifier.GraphEdge) map[*verifier.GraphEdge]bool {
	m := map[*verifier.GraphEdge]bool{}
	for _, e := range l {
		m[e] = true
	}
	return m
}

func execC10(t *testing.T, scAny any, keepLog bool) (o *Outcome) {
	sc := scAny.(*c10Scenario)
	o = &Outcome{Counters: map[string]int{}}
	h := kit.NewHash64()
	var finals [2]*c10State
	for oi, order := range [][]gDelivery{sc.OrderA, sc.OrderB} {
		g := verifier.NewGraph()
		delivered, roots := map[int]bool{}, map[int]bool{}
		for step, d := range order {
			b := sc.PKI.build(d.Cert)
			if delivered[d.Cert] {
				o.count("fault.duplicate_delivery", 1)
				if d.Root != roots[d.Cert] {
					o.count("fault.redelivery_other_root_flag", 1)
				}
			}
			var pv any
			pemFail := ""
			func() {
				defer func() { pv = recover() }()
				switch {
				case d.Chunk > 0:
					// the certificate arrives as a PEM stream
					stream := kit.PEMCert(b.K.DER)
					bad := 0
					switch d.Junk {
					case 1:
						stream = append([]byte("subject=CN=whatever\nissuer=somebody\n"), stream...)
					case 2:
						broken := append([]byte(nil), b.K.DER[:len(b.K.DER)/2]...)
						stream = append(kit.PEMCert(broken), stream...)
						bad = 1
					case 3:
						stream = append(stream, pem.EncodeToMemory(&pem.Block{Type: "X509 CRL", Bytes: []byte{0x30, 0x03, 0x02, 0x01, 0x01}})...)
						bad = 1
					case 4:
						stream = append(stream, []byte("trailing text without newline")...)
					}
					n, perrs, err := g.AppendFromPEMErr(&chunkReader{data: stream, chunk: d.Chunk, eofData: d.EOFData}, d.Root)
					o.count("fault.delivered_as_chunked_pem_stream", 1)
					if err != nil || n != 1 || len(perrs) != bad {
						pemFail = fmt.Sprintf("AppendFromPEMErr returned (%d, %d parse errors, %v) for a stream with one certificate and %d unparseable block(s) (chunk %d, junk %d)", n, len(perrs), err, bad, d.Chunk, d.Junk)
					}
				case d.Root:
					g.AddRoot(b.Z)
				default:
					g.AddCert(b.Z)
				}
			}()
			if pv != nil {
				o.Fail = Failf("c10.panic", "panic while inserting a certificate", "order %c step %d cert %d root=%v: %v", 'A'+oi, step, d.Cert, d.Root, pv)
				return o
			}
			if pemFail != "" {
				o.Fail = Failf("c10.pem", "a certificate delivered as a PEM stream was not inserted exactly once", "order %c step %d: %s", 'A'+oi, step, pemFail)
				return o
			}
			if d.Root {
				roots[d.Cert] = true
			}
			delivered[d.Cert] = true
			st, f := c10Check(sc.PKI, g, delivered, roots, step, o)
			if f != nil {
				f.Msg = fmt.Sprintf("order %c: %s", 'A'+oi, f.Msg)
				o.Fail = f
				return o
			}
			finals[oi] = st
			h.WriteString(fmt.Sprint(len(st.Nodes), len(st.Edges), len(st.Roots)))
		}
		o.Steps += len(order)
	}
	if finals[0] != nil && finals[1] != nil {
		a, _ := json.Marshal(finals[0])
		b, _ := json.Marshal(finals[1])
		if string(a) != string(b) {
			o.Fail = Failf("c10.convergence", "two delivery orders of the same certificates produced different graphs", "A=%s\nB=%s", a, b)
		}
	}
	o.LogHash = h.Sum()
	sh := kit.NewHash64()
	b, _ := json.Marshal(sc)
	sh.Write(b)
	o.Distinct = sh.Sum()
	o.Nontrivial = len(sc.OrderA) >= 3
	return o
}

func shrinkC10(scAny any) []any {
	sc := scAny.(*c10Scenario)
	var out []any
	for i := len(sc.OrderA) - 1; i >= 0; i-- {
		c := *sc
		c.OrderA = dropIndex(sc.OrderA, i)
		// keep both orders over the same multiset: drop the same delivery from B
		c.OrderB = nil
		dropped := false
		for _, d := range sc.OrderB {
			if !dropped && d == sc.OrderA[i] {
				dropped = true
				continue
			}
			c.OrderB = append(c.OrderB, d)
		}
		out = append(out, &c)
	}
	return out
}

func init() {
	register(&Prop{
		ID: "C10", Level: "exploration", Engine: "H (single-task delivery histories vs a set-determined model; the fault model of a transport applied to AddCert/AddRoot calls)",
		Rule: "seeded PKIs of 3-8 identities (layered CA DAG, cross-signs, self-issued roots, same-name different-key CAs, dangling issuers, one bad signature) delivered in two seeded orders with duplicates and re-deliveries under the other root flag; non-trivial = at least three deliveries; distinct = hash of the scenario",
		Real:   []string{"verifier.Graph AddCert/AddRoot/Nodes/Edges/FindEdge/FindNode/IsRoot incl. the dangling-edge fix-up"},
		Stub:   []string{"certificates generated with the standard library from a fixed key pool", "issuer oracle: standard-library signature verification"},
		Assume: []string{"ECDSA keys: at most one node verifies a given certificate, so the documented freedom (choice among several verifying issuers) does not arise"},
		FaultKinds: []string{"fault.duplicate_delivery", "fault.redelivery_other_root_flag", "fault.delivered_as_chunked_pem_stream", "probe.dangling_edges_seen"},
		NotInjected: "no clock, transport or storage is involved; the fault dimension is delivery order, duplication and re-delivery",
		Gen:         genC10, New: func() any { return &c10Scenario{} }, Exec: execC10, Shrink: shrinkC10,
		QuickRuns: 3000, ThoroughRuns: 300000,
	})
}
