package props

import (
	"bytes"
	"crypto"
	"crypto/ecdsa"
	"crypto/rsa"
	"crypto/sha1"
	"crypto/sha256"
	"crypto/sha512"
	stdx509 "crypto/x509"
	stdasn1 "encoding/asn1"
	"encoding/json"
	"crypto/x509/pkix"
	"hash"
	"math/big"
	"strings"
	"testing"
	"time"

	zrsa "github.com/zmap/zcrypto/rsa"
	"github.com/zmap/zcrypto/tls"
	zx509 "github.com/zmap/zcrypto/x509"
	zpkix "github.com/zmap/zcrypto/x509/pkix"
	"github.com/zmap/zcrypto/x509/revocation/crl"
	"github.com/zmap/zcrypto/x509/revocation/ocsp"
	"verifsim/kit"
)

// C13: responder node (real CreateResponse, issuer key or delegated responder
// certificate), requester node (real CreateRequest / ParseRequest /
// ParseResponse / ParseResponseForCert) and an untrusted relay between them
// that flips, truncates, appends, substitutes and re-signs. One relay form is a
// real zcrypto TLS server stapling the response. The clock (ProducedAt) is the
// simulated clock of the bubble.

type c13Fault struct {
	Kind string `json:"kind"` // none | flip | set | grow | growprim | dup | drop | tail_inner | trunc | append | substitute | wrong_issuer | rogue_responder | strip_cert
	Off  int    `json:"off"`
	Bit  int    `json:"bit"`
	N    int    `json:"n"`
}

type c13Scenario struct {
	Seed       uint64   `json:"seed"`
	IssuerKey  string   `json:"issuer_key"`  // rsa | p256 | p384 | p521
	NegReq     bool     `json:"neg_req,omitempty"` // the request is built for a certificate with a negative serial number
	RevZero    bool     `json:"rev_zero,omitempty"` // a Revoked template whose RevokedAt is left at the zero time
	Delegated  bool     `json:"delegated"`   // signed by a delegated responder certificate embedded in the response
	Status     int      `json:"status"`      // 0 good 1 revoked 2 unknown
	Reason     int      `json:"reason"`
	Serial     int64    `json:"serial"`
	ThisOffS   int      `json:"this_off_s"`  // thisUpdate = simulated now - this
	NextOffS   int      `json:"next_off_s"`
	RevOffS    int      `json:"rev_off_s"`
	Hash       int      `json:"hash"` // crypto.Hash of the issuer hashes (3 SHA1, 5 SHA256, 6 SHA384, 7 SHA512)
	ExtraExt   bool     `json:"extra_ext"`
	ForCert    bool     `json:"for_cert"`  // requester uses ParseResponseForCert
	WithIssuer bool     `json:"with_issuer"`
	Multi      int      `json:"multi"`     // >0: hand-built response with this many single responses; Serial is placed at position MultiPos (and duplicated later)
	MultiPos   int      `json:"multi_pos"`
	Staple     bool     `json:"staple"`    // relay = zcrypto TLS server stapling the response
	ClockOffS  int      `json:"clock_off_s"`
	SigAlg     string   `json:"sig_alg,omitempty"` // template.SignatureAlgorithm: "" (default for the key) | sha1 | sha256 | sha384 | sha512
	SubNs      int      `json:"sub_ns,omitempty"`  // sub-second part added to the template's times (the wire carries whole seconds)
	Fault      c13Fault `json:"fault"`
}

func genC13(seed uint64, tier string) any {
	r := kit.NewRng(seed)
	sc := &c13Scenario{Seed: seed}
	sc.IssuerKey = []string{"rsa", "p256", "p384", "p521"}[r.Pick([]int{3, 3, 3, 2})]
	sc.NegReq = r.Chance(1, 6)
	sc.RevZero = r.Chance(1, 8)
	sc.Delegated = r.Chance(2, 5)
	sc.Status = r.Intn(3)
	sc.Reason = []int{0, 1, 2, 3, 4, 5, 6, 8, 9, 10}[r.Intn(10)]
	sc.Serial = int64(r.Range(1, 1<<30))
	sc.ThisOffS = r.Intn(86400 * 3)
	sc.NextOffS = r.Intn(86400 * 7)
	sc.RevOffS = r.Intn(86400 * 400)
	sc.Hash = []int{3, 5, 6, 7, 3}[r.Intn(5)]
	sc.ExtraExt = r.Chance(1, 4)
	sc.ForCert = r.Bool()
	sc.WithIssuer = r.Chance(5, 6)
	sc.ClockOffS = []int{0, 59, 61, 3599, 86400 * 200}[r.Intn(5)]
	if r.Chance(1, 6) {
		sc.Multi = r.Range(2, 4)
		sc.MultiPos = r.Intn(sc.Multi)
		sc.ForCert = true
		sc.Delegated = false
		sc.IssuerKey = "p256"
	}
	sc.Staple = sc.Multi == 0 && r.Chance(1, 8)
	if r.Chance(3, 5) && sc.Multi == 0 {
		kinds := []string{"flip", "flip", "flip", "flip", "trunc", "append", "substitute", "wrong_issuer", "rogue_responder", "rogue_issuer_name", "strip_cert",
			"set", "set", "set", "grow", "growprim", "dup", "drop", "tail_inner"}
		sc.Fault = c13Fault{Kind: kinds[r.Intn(len(kinds))], Off: r.Intn(1 << 20), Bit: r.Intn(8), N: 1 + r.Intn(40)}
		if sc.Fault.Kind == "strip_cert" && !sc.Delegated {
			sc.Delegated = true
		}
		sc.WithIssuer = true
		sc.Staple = false
	} else {
		sc.Fault.Kind = "none"
	}
	if r.Chance(1, 3) {
		sc.SigAlg = []string{"sha1", "sha256", "sha384", "sha512"}[r.Intn(4)]
	}
	if r.Chance(1, 2) {
		sc.SubNs = []int{1, 499_999_999, 500_000_000, 500_000_001, 750_000_000, 999_999_999}[r.Intn(6)]
	}
	return sc
}

// c13SigAlg maps the scenario's signature hash to the x509.SignatureAlgorithm for the signer's key type.
func c13SigAlg(name string, signer crypto.Signer) zx509.SignatureAlgorithm {
	_, ec := signer.Public().(*ecdsa.PublicKey)
	switch name {
	case "sha1":
		if ec {
			return zx509.ECDSAWithSHA1
		}
		return zx509.SHA1WithRSA
	case "sha256":
		if ec {
			return zx509.ECDSAWithSHA256
		}
		return zx509.SHA256WithRSA
	case "sha384":
		if ec {
			return zx509.ECDSAWithSHA384
		}
		return zx509.SHA384WithRSA
	case "sha512":
		if ec {
			return zx509.ECDSAWithSHA512
		}
		return zx509.SHA512WithRSA
	}
	return 0
}

// The OCSP response layout (RFC 6960 4.2.1) as paths of the DER tree: the root SEQUENCE holds responseStatus
// (.0) and the [0] EXPLICIT wrapper (.1) of ResponseBytes (.1.0) = {responseType (.1.0.0), response OCTET
// STRING (.1.0.1)}; the OCTET STRING wraps (.w) BasicOCSPResponse = {tbsResponseData (.0), signatureAlgorithm
// (.1), signature BIT STRING (.2), [0] EXPLICIT certs (.3) -> SEQUENCE OF (.3.0) -> Certificate (.3.0.0) =
// {tbsCertificate (.0), signatureAlgorithm (.1), signature (.2)}}.
const (
	c13Basic    = ".1.0.1.w"
	c13TBS      = c13Basic + ".0"
	c13SigOID   = c13Basic + ".1.0"
	c13Sig      = c13Basic + ".2"
	c13Cert     = c13Basic + ".3.0.0"
	c13CertTBS  = c13Cert + ".0"
	c13CertSig  = c13Cert + ".2"
	c13OctetStr = ".1.0.1"
	c13Status   = ".0" // responseStatus ENUMERATED of the outer OCSPResponse
)

func pathUnder(path, prefix string) bool {
	return path == prefix || (len(path) > len(prefix) && path[:len(prefix)] == prefix && (path[len(prefix)] == '.' || path[len(prefix)] == ':'))
}

// c13MustReject says whether a tampering at the labelled place of a signed response has to be rejected:
// everything inside the two signed structures, the octets of the two signature values (including the BIT
// STRING's unused-bits octet) and the response's signature algorithm OID. Places outside (wrapper lengths,
// AlgorithmIdentifier parameters, the certificate's outer signatureAlgorithm, additional elements in
// extensible SEQUENCEs) are inert and tolerated.
func c13MustReject(kind, label string) bool {
	if pathUnder(label, c13TBS) || pathUnder(label, c13CertTBS) {
		return true
	}
	if kind == "flip" || kind == "set" {
		// (the response status is outside every signature, but it says whether there is a response at all: a
		// signed response re-labelled with another status must not come back as a successful one)
		return label == c13Sig+":val" || label == c13CertSig+":val" || label == c13SigOID+":val" || label == c13Status+":val"
	}
	return false
}

type c13PKI struct {
	issuer, issuerZ        map[string]*kit.Cert
	z                      map[string]*zx509.Certificate
	leaf                   map[string]*kit.Cert
	leafZ                  map[string]*zx509.Certificate
	responder, rogue       map[string]*kit.Cert
	responderZ, rogueZ     map[string]*zx509.Certificate
	otherIssuer            *kit.Cert
	otherIssuerZ           *zx509.Certificate
}

var c13pki *c13PKI

func c13Setup() *c13PKI {
	if c13pki != nil {
		return c13pki
	}
	p := &c13PKI{issuer: map[string]*kit.Cert{}, z: map[string]*zx509.Certificate{}, leaf: map[string]*kit.Cert{}, leafZ: map[string]*zx509.Certificate{},
		responder: map[string]*kit.Cert{}, rogue: map[string]*kit.Cert{}, responderZ: map[string]*zx509.Certificate{}, rogueZ: map[string]*zx509.Certificate{}}
	keys := map[string]string{"rsa": "rsa5", "p256": "p256_7", "p384": "p384_2", "p521": "p521_0"}
	p.otherIssuer = kit.MakeCert(kit.CertSpec{Name: "Other OCSP CA", Key: "p256_8", IsCA: true, MaxPathLen: -1, Serial: 70})
	p.otherIssuerZ = zparse(p.otherIssuer.DER)
	for k, key := range keys {
		p.issuer[k] = kit.MakeCert(kit.CertSpec{Name: "OCSP CA " + k, Key: key, IsCA: true, MaxPathLen: -1, Serial: 71})
		p.z[k] = zparse(p.issuer[k].DER)
		p.responder[k] = kit.MakeCert(kit.CertSpec{Name: "OCSP Responder " + k, Key: "p256_9", Issuer: p.issuer[k], Serial: 72, OCSPSigner: true})
		p.responderZ[k] = zparse(p.responder[k].DER)
		// the same responder key certified under a subject whose string type is not the one this library would choose
		p.responder[k+"/utf8"] = kit.MakeCert(kit.CertSpec{Name: "OCSP Responder U " + k, Key: "p256_9", Issuer: p.issuer[k], Serial: 75, OCSPSigner: true, UTF8Subject: true})
		p.responderZ[k+"/utf8"] = zparse(p.responder[k+"/utf8"].DER)
		p.rogue[k] = kit.MakeCert(kit.CertSpec{Name: "OCSP Responder " + k, Key: "p256_10", Issuer: p.otherIssuer, Serial: 73, OCSPSigner: true})
		p.rogueZ[k] = zparse(p.rogue[k].DER)
	}
	c13pki = p
	return p
}

// ocspSignerKey returns the responder's signing key: zcrypto's RSA type for RSA
// keys (PKCS#1 v1.5, deterministic), and for ECDSA a wrapper that signs per
// RFC 6979 instead of drawing from crypto/rand as CreateResponse would — the
// response bytes, and with them every fault offset, are then a function of the
// scenario alone.
func ocspSignerKey(name string) crypto.Signer {
	k := kit.TLSKey(name).(crypto.Signer)
	if ek, ok := k.(*ecdsa.PrivateKey); ok {
		return kit.DetSigner{Signer: ek}
	}
	return k
}

func hashFor(h int) hash.Hash {
	switch crypto.Hash(h) {
	case crypto.SHA256:
		return sha256.New()
	case crypto.SHA384:
		return sha512.New384()
	case crypto.SHA512:
		return sha512.New()
	}
	return sha1.New()
}

// stdVerifies checks a signature over tbs with the standard library under the public key of c, trying the hashes OCSP uses.
func stdVerifies(c *kit.Cert, tbs, sig []byte) bool { return stdVerifiesKey(c.Std.PublicKey, tbs, sig) }

func stdVerifiesKey(key any, tbs, sig []byte) bool {
	if zk, ok := key.(*zrsa.PublicKey); ok && zk.E.IsInt64() {
		key = &rsa.PublicKey{N: zk.N, E: int(zk.E.Int64())}
	}
	if ak, ok := key.(*zx509.AugmentedECDSA); ok {
		key = ak.Pub
	}
	for _, h := range []crypto.Hash{crypto.SHA256, crypto.SHA384, crypto.SHA512, crypto.SHA1} {
		hh := h.New()
		hh.Write(tbs)
		d := hh.Sum(nil)
		switch pub := key.(type) {
		case *rsa.PublicKey:
			if rsa.VerifyPKCS1v15(pub, h, d, sig) == nil {
				return true
			}
		case *ecdsa.PublicKey:
			if ecdsa.VerifyASN1(pub, d, sig) {
				return true
			}
		}
	}
	return false
}

// ---- hand-built multi-status response (RFC 6960 4.2.1), standard library ASN.1 only

type mCertID struct {
	HashAlgorithm pkix.AlgorithmIdentifier
	NameHash      []byte
	IssuerKeyHash []byte
	SerialNumber  *big.Int
}
type mSingle struct {
	CertID     mCertID
	Good       stdasn1.Flag `asn1:"tag:0,optional"`
	ThisUpdate time.Time    `asn1:"generalized"`
	NextUpdate time.Time    `asn1:"generalized,explicit,tag:0,optional"`
}
type mSingleRevoked struct {
	CertID     mCertID
	Revoked    mRevoked  `asn1:"tag:1"`
	ThisUpdate time.Time `asn1:"generalized"`
	NextUpdate time.Time `asn1:"generalized,explicit,tag:0,optional"`
}
type mRevoked struct {
	RevocationTime time.Time          `asn1:"generalized"`
	Reason         stdasn1.Enumerated `asn1:"explicit,tag:0,optional"`
}
type mResponseData struct {
	RawResponderID stdasn1.RawValue
	ProducedAt     time.Time `asn1:"generalized"`
	Responses      []stdasn1.RawValue
}
type mBasic struct {
	TBS       stdasn1.RawValue
	SigAlg    pkix.AlgorithmIdentifier
	Signature stdasn1.BitString
}
type mResponseBytes struct {
	ResponseType stdasn1.ObjectIdentifier
	Response     []byte
}
type mResponse struct {
	Status   stdasn1.Enumerated
	Response mResponseBytes `asn1:"explicit,tag:0"`
}

type multiEntry struct {
	Serial  int64
	Revoked bool
	Reason  int
}

func buildMulti(issuer *kit.Cert, entries []multiEntry, now time.Time) ([]byte, error) {
	var spki struct {
		Algorithm pkix.AlgorithmIdentifier
		PublicKey stdasn1.BitString
	}
	if _, err := stdasn1.Unmarshal(issuer.Std.RawSubjectPublicKeyInfo, &spki); err != nil {
		return nil, err
	}
	kh := sha1.Sum(spki.PublicKey.RightAlign())
	nh := sha1.Sum(issuer.Std.RawSubject)
	var singles []stdasn1.RawValue
	for _, e := range entries {
		id := mCertID{HashAlgorithm: pkix.AlgorithmIdentifier{Algorithm: stdasn1.ObjectIdentifier{1, 3, 14, 3, 2, 26}, Parameters: stdasn1.RawValue{Tag: 5}}, NameHash: nh[:], IssuerKeyHash: kh[:], SerialNumber: big.NewInt(e.Serial)}
		var der []byte
		var err error
		if e.Revoked {
			der, err = stdasn1.Marshal(mSingleRevoked{CertID: id, Revoked: mRevoked{RevocationTime: now.Add(-time.Hour).UTC().Truncate(time.Second), Reason: stdasn1.Enumerated(e.Reason)}, ThisUpdate: now.UTC().Truncate(time.Second), NextUpdate: now.Add(time.Hour).UTC().Truncate(time.Second)})
		} else {
			der, err = stdasn1.Marshal(mSingle{CertID: id, Good: true, ThisUpdate: now.UTC().Truncate(time.Second), NextUpdate: now.Add(time.Hour).UTC().Truncate(time.Second)})
		}
		if err != nil {
			return nil, err
		}
		singles = append(singles, stdasn1.RawValue{FullBytes: der})
	}
	tbs, err := stdasn1.Marshal(mResponseData{RawResponderID: stdasn1.RawValue{Class: 2, Tag: 1, IsCompound: true, Bytes: issuer.Std.RawSubject}, ProducedAt: now.UTC().Truncate(time.Minute), Responses: singles})
	if err != nil {
		return nil, err
	}
	d := sha256.Sum256(tbs)
	sig, err := kit.DetSigner{Signer: issuer.Key}.Sign(nil, d[:], crypto.SHA256)
	if err != nil {
		return nil, err
	}
	basic, err := stdasn1.Marshal(mBasic{TBS: stdasn1.RawValue{FullBytes: tbs}, SigAlg: pkix.AlgorithmIdentifier{Algorithm: stdasn1.ObjectIdentifier{1, 2, 840, 10045, 4, 3, 2}}, Signature: stdasn1.BitString{Bytes: sig, BitLength: 8 * len(sig)}})
	if err != nil {
		return nil, err
	}
	return stdasn1.Marshal(mResponse{Status: 0, Response: mResponseBytes{ResponseType: stdasn1.ObjectIdentifier{1, 3, 6, 1, 5, 5, 7, 48, 1, 1}, Response: basic}})
}

type genuineResp struct {
	Status  int
	Serial  int64
	Reason  int
	This    time.Time
	Next    time.Time
	Revoked time.Time
}

func execC13(t *testing.T, scAny any, keepLog bool) *Outcome {
	sc := scAny.(*c13Scenario)
	o := &Outcome{Counters: map[string]int{}}
	p := c13Setup()
	kit.Bubble(t, func() {
		if sc.ClockOffS > 0 {
			time.Sleep(time.Duration(sc.ClockOffS) * time.Second)
		}
		o.Fail = c13Run(t, sc, p, o)
	})
	h := kit.NewHash64()
	b, _ := json.Marshal(sc)
	h.Write(b)
	o.Distinct = h.Sum()
	o.LogHash = h.Sum()
	if o.Fail != nil {
		hh := kit.NewHash64()
		hh.WriteString(o.Fail.Oracle)
		o.LogHash ^= hh.Sum()
	}
	o.Nontrivial = true
	o.Steps = 1
	return o
}

func c13Run(t *testing.T, sc *c13Scenario, p *c13PKI, o *Outcome) *Failure {
	now := time.Now()
	ik := sc.IssuerKey
	issuer, issuerZ := p.issuer[ik], p.z[ik]
	leaf := kit.MakeCert(kit.CertSpec{Name: "ocsp-leaf", Key: "p256_11", Issuer: issuer, Serial: sc.Serial, DNSNames: []string{"leaf.sim.test"}})
	leafZ := zparse(leaf.DER)

	// ---- request round trip (requester → responder)
	reqSerial := sc.Serial
	reqCert := leafZ
	if sc.NegReq {
		// a certificate with a negative serial number (parsers accept them; RFC 5280 4.1.2.2 asks to handle them gracefully)
		c := *leafZ
		reqSerial = -sc.Serial
		c.SerialNumber = big.NewInt(reqSerial)
		reqCert = &c
		o.count("probe.request_negative_serial", 1)
	}
	reqDER, err := ocsp.CreateRequest(reqCert, issuerZ, &ocsp.RequestOptions{Hash: crypto.Hash(sc.Hash)})
	if err != nil {
		return Failf("c13.request", "CreateRequest failed for a supported hash", "hash %d: %v", sc.Hash, err)
	}
	req, err := ocsp.ParseRequest(reqDER)
	if err != nil {
		return Failf("c13.request", "ParseRequest rejects a request built by CreateRequest", "%v", err)
	}
	var spki struct {
		Algorithm pkix.AlgorithmIdentifier
		PublicKey stdasn1.BitString
	}
	stdasn1.Unmarshal(issuer.Std.RawSubjectPublicKeyInfo, &spki)
	hh := hashFor(sc.Hash)
	hh.Write(spki.PublicKey.RightAlign())
	wantKH := hh.Sum(nil)
	hh.Reset()
	hh.Write(issuer.Std.RawSubject)
	wantNH := hh.Sum(nil)
	if req.SerialNumber.Int64() != reqSerial || !bytes.Equal(req.IssuerKeyHash, wantKH) || !bytes.Equal(req.IssuerNameHash, wantNH) || int(req.HashAlgorithm) != sc.Hash {
		return Failf("c13.request", "request does not parse back to the same hashes and serial", "serial %v hash %v", req.SerialNumber, req.HashAlgorithm)
	}
	o.count("probe.request_roundtrip", 1)

	// ---- responder
	sub := time.Duration(sc.SubNs)
	tmpl := ocsp.Response{Status: sc.Status, SerialNumber: big.NewInt(sc.Serial), ThisUpdate: now.Add(-time.Duration(sc.ThisOffS)*time.Second + sub), NextUpdate: now.Add(time.Duration(sc.NextOffS)*time.Second + sub),
		IssuerHash: crypto.Hash(sc.Hash)}
	if sc.Status == ocsp.Revoked && sc.RevZero {
		tmpl.RevocationReason = crl.RevocationReasonCode(sc.Reason) // RevokedAt stays the zero time
	} else if sc.Status == ocsp.Revoked {
		tmpl.RevokedAt = now.Add(-time.Duration(sc.RevOffS)*time.Second + sub)
		tmpl.RevocationReason = crl.RevocationReasonCode(sc.Reason)
	}
	if sc.ExtraExt {
		tmpl.ExtraExtensions = []zpkix.Extension{{Id: []int{1, 3, 6, 1, 4, 1, 99999, 1}, Critical: false, Value: []byte{4, 2, 1, 2}}}
	}
	responderZ, signer := issuerZ, ocspSignerKey(map[string]string{"rsa": "rsa5", "p256": "p256_7", "p384": "p384_2", "p521": "p521_0"}[ik])
	signerCert := issuer
	if sc.Delegated {
		rk := ik
		if sc.Seed>>9&1 == 1 {
			rk = ik + "/utf8"
			o.count("probe.responder_subject_utf8string", 1)
		}
		responderZ, signer, signerCert = p.responderZ[rk], ocspSignerKey("p256_9"), p.responder[rk]
		tmpl.Certificate = responderZ
	}
	if sc.SigAlg != "" {
		tmpl.SignatureAlgorithm = c13SigAlg(sc.SigAlg, signer)
		o.count("probe.explicit_signature_algorithm", 1)
	}
	genuine := []genuineResp{}
	var respDER []byte
	if sc.Multi > 0 {
		var entries []multiEntry
		for i := 0; i < sc.Multi; i++ {
			e := multiEntry{Serial: sc.Serial + int64(1+i)}
			if i == sc.MultiPos {
				e = multiEntry{Serial: sc.Serial, Revoked: sc.Status == ocsp.Revoked, Reason: sc.Reason}
			}
			entries = append(entries, e)
		}
		// the queried serial appears a second time later with the opposite status: the first match must win
		entries = append(entries, multiEntry{Serial: sc.Serial, Revoked: sc.Status != ocsp.Revoked, Reason: 1})
		respDER, err = buildMulti(issuer, entries, now)
		if err != nil {
			panic(err)
		}
		o.count("probe.multi_status_responses", 1)
	} else {
		respDER, err = ocsp.CreateResponse(issuerZ, responderZ, tmpl, signer)
		if err != nil {
			return Failf("c13.create", "CreateResponse failed for a valid template", "%v", err)
		}
		genuine = append(genuine, genuineResp{Status: sc.Status, Serial: sc.Serial, Reason: sc.Reason, This: tmpl.ThisUpdate, Next: tmpl.NextUpdate, Revoked: tmpl.RevokedAt})
	}

	// ---- relay
	delivered := respDER
	f := sc.Fault
	signedBy := []*kit.Cert{signerCert} // keys under which an accepted response may verify
	label := ""                          // place of a byte-level / structural tampering in the DER tree of the genuine response
	expandOctet := func(path string) bool { return path == c13OctetStr }
	var tree *derNode
	var nodes []string
	switch f.Kind {
	case "flip", "set", "grow", "growprim", "dup", "drop", "tail_inner":
		tr, _, perr := parseDER(respDER, 0, "", expandOctet)
		if perr != nil || !bytes.Equal(tr.encode(), respDER) {
			return Failf("c13.create", "CreateResponse did not produce DER", "%v", perr)
		}
		tree = tr
		tree.walk("", func(path string, n *derNode) { nodes = append(nodes, path) })
	}
	switch f.Kind {
	case "flip":
		delivered = append([]byte(nil), respDER...)
		delivered[f.Off%len(delivered)] ^= 1 << uint(f.Bit)
		label = tree.labelAt(f.Off % len(delivered))
	case "set":
		delivered = append([]byte(nil), respDER...)
		off := f.Off % len(delivered)
		if f.N%3 == 0 {
			// bias: the first value octet of one of the two signatures (the BIT STRING's unused-bits count), or
			// the response status
			if n := tree.find([]string{c13Sig, c13CertSig, c13Status}[f.Bit%3]); n != nil {
				off = n.HdrEnd
			}
		}
		v := byte(f.N)
		if f.N%3 == 0 {
			v = byte(1 + f.N%9)
		}
		if v == delivered[off] {
			v ^= 0x01
		}
		delivered[off] = v
		label = tree.labelAt(off)
	case "grow", "growprim", "dup", "drop":
		path := nodes[f.Off%len(nodes)]
		n := tree.find(path)
		label = path + ":" + f.Kind
		switch {
		case f.Kind == "grow" && (n.constructed() || n.Wrapped != nil) && path != c13OctetStr:
			n.Content = []byte{0x05, 0x00}
		case f.Kind == "growprim" && !n.constructed() && n.Wrapped == nil:
			n.Content = append(n.Content, byte(f.N))
		case f.Kind == "dup" && len(n.Children) > 0:
			n.Children = append(n.Children, n.Children[len(n.Children)-1])
		case f.Kind == "drop" && len(n.Children) > 0:
			n.Children = n.Children[:len(n.Children)-1]
		default:
			// not applicable to this node: fall back to junk after the encapsulated BasicOCSPResponse
			tree.find(c13OctetStr).Content = kit.NewRng(uint64(f.Off)).Bytes(f.N)
			label = c13OctetStr + ":tail_inner"
		}
		delivered = tree.encode()
	case "tail_inner":
		tree.find(c13OctetStr).Content = kit.NewRng(uint64(f.Off)).Bytes(f.N)
		label = c13OctetStr + ":tail_inner"
		delivered = tree.encode()
	case "trunc":
		delivered = respDER[:f.Off%len(respDER)]
	case "append":
		delivered = append(append([]byte(nil), respDER...), kit.NewRng(uint64(f.Off)).Bytes(f.N)...)
	case "substitute":
		// an authentic response of the same responder for another serial
		t2 := tmpl
		t2.SerialNumber = big.NewInt(sc.Serial + 7)
		t2.Status = ocsp.Good
		delivered, _ = ocsp.CreateResponse(issuerZ, responderZ, t2, signer)
		genuine = append(genuine, genuineResp{Status: ocsp.Good, Serial: sc.Serial + 7, This: t2.ThisUpdate, Next: t2.NextUpdate})
	case "wrong_issuer":
		t2 := tmpl
		t2.Certificate = nil
		delivered, _ = ocsp.CreateResponse(p.otherIssuerZ, p.otherIssuerZ, t2, ocspSignerKey("p256_8"))
		signedBy = nil
	case "rogue_responder":
		t2 := tmpl
		t2.Certificate = p.rogueZ[ik]
		delivered, _ = ocsp.CreateResponse(issuerZ, p.rogueZ[ik], t2, ocspSignerKey("p256_10"))
		signedBy = nil
	case "rogue_issuer_name":
		// the embedded "responder" certificate carries the issuer's own subject name but an attacker's key
		// (self-signed); the response is signed with that key
		fake := kit.MakeCert(kit.CertSpec{Name: "OCSP CA " + ik, Key: "p256_10", IsCA: true, MaxPathLen: -1, Serial: 74})
		t2 := tmpl
		t2.Certificate = zparse(fake.DER)
		delivered, _ = ocsp.CreateResponse(issuerZ, t2.Certificate, t2, ocspSignerKey("p256_10"))
		signedBy = nil
	case "strip_cert":
		t2 := tmpl
		t2.Certificate = nil
		delivered, _ = ocsp.CreateResponse(issuerZ, responderZ, t2, signer) // signed by the delegate, certificate withheld
		signedBy = nil
	}
	o.count("fault.relay_"+f.Kind, 1)
	if sc.Staple {
		// the relay is a real zcrypto TLS server stapling the response
		got := c13Staple(sc, delivered)
		o.count("probe.stapled_via_tls", 1)
		if !bytes.Equal(got, delivered) {
			return Failf("c13.staple", "stapled OCSP response reaches the TLS client altered or not at all", "sent %d bytes, ConnectionState().OCSPResponse has %d", len(delivered), len(got))
		}
		delivered = got
	}

	// ---- requester
	var issArg *zx509.Certificate
	if sc.WithIssuer {
		issArg = issuerZ
	}
	var resp *ocsp.Response
	if sc.ForCert {
		resp, err = ocsp.ParseResponseForCert(delivered, leafZ, issArg)
	} else {
		resp, err = ocsp.ParseResponse(delivered, issArg)
	}
	if err != nil {
		if f.Kind == "none" {
			return Failf("c13.roundtrip", "a response built by the responder is rejected by the requester", "%v (delegated=%v key=%s multi=%d)", err, sc.Delegated, ik, sc.Multi)
		}
		o.count("probe.tampered_rejected", 1)
		return nil
	}
	if f.Kind != "none" {
		o.count("probe.tampered_accepted", 1)
	}
	if label != "" {
		// "any tampering of a signed response is rejected": signed structures, signature values, the signature
		// algorithm and bytes behind the end of the (outer or encapsulated) response
		kind := f.Kind
		if strings.HasSuffix(label, ":tail_inner") {
			kind = "tail_inner"
		}
		if c13MustReject(kind, label) || kind == "tail_inner" {
			return Failf("c13.tamper_accepted", "a tampered signed response is accepted ("+kind+" at "+c13Place(label)+")", "fault %+v label %s delegated=%v key=%s", f, label, sc.Delegated, ik)
		}
		o.count("probe.inert_tamper_accepted", 1)
	}
	if f.Kind == "append" {
		return Failf("c13.tamper_accepted", "bytes appended after the response are accepted", "fault %+v", f)
	}
	// (i) authenticity, checked with the standard library
	if sc.WithIssuer {
		ok := false
		if resp.Certificate != nil {
			// The embedded certificate's signed part must verify under the issuer key, and the response under
			// the key inside that signed part. Only the signed bytes count: the standard library's strict
			// certificate parser is not used, because differences in unsigned places (e.g. the outer
			// signatureAlgorithm) are inert for this property.
			if stdVerifies(issuer, resp.Certificate.RawTBSCertificate, resp.Certificate.Signature) {
				ok = stdVerifiesKey(resp.Certificate.PublicKey, resp.TBSResponseData, resp.Signature)
			}
		} else {
			ok = stdVerifies(issuer, resp.TBSResponseData, resp.Signature)
		}
		if !ok {
			return Failf("c13.authentic", "accepted a response whose signature does not verify under the issuer (directly or through an embedded certificate signed by the issuer)", "fault %s delegated=%v", f.Kind, sc.Delegated)
		}
		if signedBy == nil {
			return Failf("c13.authentic", "accepted a response that was not signed by the issuer or its delegate", "fault %s", f.Kind)
		}
	}
	// (iii) ForCert returns the queried serial
	if sc.ForCert && resp.SerialNumber.Int64() != sc.Serial {
		return Failf("c13.forcert", "ParseResponseForCert returned a response for another serial", "got %v want %d", resp.SerialNumber, sc.Serial)
	}
	if sc.Multi > 0 {
		wantStatus := ocsp.Good
		if sc.Status == ocsp.Revoked {
			wantStatus = ocsp.Revoked
		}
		if resp.Status != wantStatus {
			return Failf("c13.firstmatch", "ParseResponseForCert did not return the first single response whose serial matches", "position %d of %d: status %d want %d", sc.MultiPos, sc.Multi, resp.Status, wantStatus)
		}
		return nil
	}
	// (ii) the reported fields equal a response the responder really signed
	match := false
	for _, g := range genuine {
		if resp.Status == g.Status && resp.SerialNumber.Int64() == g.Serial && resp.ThisUpdate.Unix() == g.This.Unix() && resp.NextUpdate.Unix() == g.Next.Unix() &&
			(g.Status != ocsp.Revoked || (resp.RevokedAt.Unix() == g.Revoked.Unix() && int(resp.RevocationReason) == g.Reason)) {
			match = true
		}
	}
	if !match {
		if f.Kind == "none" {
			return Failf("c13.roundtrip", "parsed response differs from the template", "status %d serial %v this %v next %v revoked %v reason %d; template status %d this %v next %v revoked %v reason %d",
				resp.Status, resp.SerialNumber, resp.ThisUpdate.Unix(), resp.NextUpdate.Unix(), resp.RevokedAt.Unix(), resp.RevocationReason, sc.Status, tmpl.ThisUpdate.Unix(), tmpl.NextUpdate.Unix(), tmpl.RevokedAt.Unix(), sc.Reason)
		}
		return Failf("c13.tamper", "accepted a tampered response whose content differs from everything the responder signed", "fault %s at %d: status %d serial %v", f.Kind, f.Off, resp.Status, resp.SerialNumber)
	}
	if f.Kind == "none" {
		if int(resp.IssuerHash) != sc.Hash || !bytes.Equal(resp.RawResponderName, signerCert.Std.RawSubject) {
			return Failf("c13.roundtrip", "issuer hash or responder name does not round-trip", "hash %v", resp.IssuerHash)
		}
		if resp.ProducedAt.Unix() != now.Truncate(time.Minute).Unix() {
			return Failf("c13.roundtrip", "ProducedAt is not the (simulated) current time to the minute", "got %v want %v", resp.ProducedAt.Unix(), now.Truncate(time.Minute).Unix())
		}
		if sc.ExtraExt && len(resp.Extensions) != 1 {
			return Failf("c13.roundtrip", "single extension does not round-trip", "%d extensions", len(resp.Extensions))
		}
		o.count("probe.response_roundtrip", 1)
	}
	return nil
}

// c13Staple runs one TLS connection in which a real zcrypto server staples the
// response; it returns what the client's ConnectionState reports.
func c13Staple(sc *c13Scenario, staple []byte) []byte {
	run := newSimRun(sc.Seed, nil, false)
	s := run.S
	vers := []uint16{vTLS12, vTLS13, vTLS11}[sc.Seed%3]
	ecfg := EndCfg{MaxVersion: vers, KeyKind: "rsa"}
	scfg := serverConfig(ecfg, s, run.R.Derive("srv-rand"))
	scfg.Certificates[0].OCSPStaple = staple
	ccfg := clientConfig(ecfg, s, run.R.Derive("cli-rand"))
	co := startConn(run, "o", ccfg, scfg, NetCfg{SegMode: 1, MaxSeg: 700, LatMinUs: 100, LatMaxUs: 900}, nil)
	s.Run()
	if co.CErr != nil {
		return nil
	}
	return co.CState.OCSPResponse
}

var _ = tls.VersionTLS12

// c13Place names the region of a DER label for violation signatures (stable across offsets inside a region).
func c13Place(label string) string {
	path := label
	if i := strings.LastIndex(label, ":"); i >= 0 {
		path = label[:i]
	}
	switch {
	case strings.HasSuffix(label, ":tail_inner"):
		return "after the encapsulated BasicOCSPResponse"
	case pathUnder(path, c13TBS):
		return "tbsResponseData"
	case pathUnder(path, c13CertTBS):
		return "embedded tbsCertificate"
	case pathUnder(path, c13Sig):
		return "response signature"
	case pathUnder(path, c13CertSig):
		return "embedded certificate signature"
	case pathUnder(path, c13SigOID):
		return "response signature algorithm"
	case pathUnder(path, c13Status):
		return "response status"
	}
	return "unsigned wrapper " + path
}

func stdParse(der []byte) (*stdx509.Certificate, error) { return stdx509.ParseCertificate(der) }

func shrinkC13(scAny any) []any {
	sc := scAny.(*c13Scenario)
	var out []any
	for _, f := range []func(c *c13Scenario){
		func(c *c13Scenario) { c.ExtraExt = false },
		func(c *c13Scenario) { c.Staple = false },
		func(c *c13Scenario) { c.ClockOffS = 0 },
		func(c *c13Scenario) { c.ThisOffS, c.NextOffS, c.RevOffS = 0, 0, 0 },
		func(c *c13Scenario) { c.Hash = 3 },
		func(c *c13Scenario) { c.Delegated = false },
	} {
		c := *sc
		f(&c)
		if c != *sc {
			out = append(out, &c)
		}
	}
	return out
}

func init() {
	register(&Prop{
		ID: "C13", Level: "fault_enumeration", Engine: "A-style node simulation in a synctest bubble (responder, Byzantine relay, requester; one relay form is a real zcrypto TLS connection over simnet under the lockstep scheduler)",
		Rule: "seeded templates (status x reason x times x issuer hash x extension x delegated responder x issuer key type RSA/P-256/P-384 x simulated clock position) x relay fault (bit flip at a seeded offset, truncation, appended bytes, substitution by another authentic response, response signed by a different CA, rogue embedded responder, withheld responder certificate) x requester call (ParseResponse / ParseResponseForCert, with or without issuer); hand-built multi-status responses for the first-match rule; distinct = hash of the scenario",
		Real:   []string{"ocsp.CreateResponse, CreateRequest, ParseRequest, ParseResponse, ParseResponseForCert, Response.CheckSignatureFrom", "TLS OCSP stapling path (server CertificateStatus / TLS 1.3 certificate entry, client ConnectionState().OCSPResponse)"},
		Stub:   []string{"Byzantine relay", "multi-status responses built with the standard library's ASN.1", "authenticity oracle: standard-library RSA/ECDSA verification", "clock: synctest bubble"},
		Assume: []string{"acceptance of a response that differs from the original only in unsigned, semantically inert places is not flagged", "rejections are never flagged"},
		FaultKinds: []string{"fault.relay_none", "fault.relay_flip", "fault.relay_trunc", "fault.relay_append", "fault.relay_substitute", "fault.relay_wrong_issuer", "fault.relay_rogue_responder", "fault.relay_rogue_issuer_name", "fault.relay_strip_cert",
			"probe.tampered_rejected", "probe.tampered_accepted", "probe.request_roundtrip", "probe.response_roundtrip", "probe.multi_status_responses", "probe.stapled_via_tls"},
		NotInjected: "no concurrency or storage in OCSP parsing; the fault dimension is the relay and the clock position",
		Gen:         genC13, New: func() any { return &c13Scenario{} }, Exec: execC13, Shrink: shrinkC13,
		QuickRuns: 8000, ThoroughRuns: 600000,
	})
}
