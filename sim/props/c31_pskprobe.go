package props

import (
	"crypto/hmac"
	"crypto/sha256"
	"crypto/sha512"
	"hash"

	"verifsim/kit"
)

// A TLS 1.3 client that offers more than one PSK identity (RFC 8446 4.2.11 allows any number; zcrypto's own
// client offers one). The harness obtains it by re-writing the genuine ClientHello in flight: an additional
// identity is placed in front of the authentic one, with an arbitrary binder, and the binder of the authentic
// identity is re-computed over the new truncated ClientHello from the session's resumption secret (RFC 8446
// 4.2.11.2, 7.1). The real client cannot finish such a handshake (it offered one identity); what is observed is
// the server's decision in its ServerHello.

func hashForSuite13(suite uint16) (func() hash.Hash, int) {
	if suite == 0x1302 {
		return sha512.New384, 48
	}
	return sha256.New, 32
}

func hkdfExtract(h func() hash.Hash, salt, ikm []byte) []byte {
	m := hmac.New(h, salt)
	m.Write(ikm)
	return m.Sum(nil)
}

// pskBinder computes the binder of a resumption PSK over the truncated ClientHello (handshake header included).
func pskBinder(suite uint16, resumptionSecret, nonce, truncatedHello []byte) []byte {
	h, n := hashForSuite13(suite)
	psk := hkdfExpandLabel(h, resumptionSecret, "resumption", nonce, n)
	early := hkdfExtract(h, make([]byte, n), psk)
	empty := h()
	binderKey := hkdfExpandLabel(h, early, "res binder", empty.Sum(nil), n)
	finishedKey := hkdfExpandLabel(h, binderKey, "finished", nil, n)
	th := h()
	th.Write(truncatedHello)
	m := hmac.New(h, finishedKey)
	m.Write(th.Sum(nil))
	return m.Sum(nil)
}

// pskRewriter rewrites the first ClientHello of a direction.
type pskRewriter struct {
	Suite          uint16
	Secret, Nonce  []byte
	Extra          []byte // the identity placed first
	buf            []byte
	done           bool
	Fired          bool
	Identities     int // number of identities the genuine hello carried
	// BinderMode (robustness scenarios): 0 = one binder per identity; 1 = the extra identity gets no binder (fewer binders
	// than identities); 2 = one binder too many; 3 = the extra identity's binder is shorter than the hash
	BinderMode int
}

func (f *pskRewriter) Closed() []byte { b := f.buf; f.buf = nil; return b }

func (f *pskRewriter) Write(p []byte) ([]byte, int) {
	if f.done {
		return p, kit.CutNone
	}
	f.buf = append(f.buf, p...)
	if len(f.buf) < 5 {
		return nil, kit.CutNone
	}
	n := int(f.buf[3])<<8 | int(f.buf[4])
	if len(f.buf) < 5+n {
		return nil, kit.CutNone
	}
	f.done = true
	rec, rest := f.buf[:5+n], f.buf[5+n:]
	out := f.rewrite(rec)
	f.buf = nil
	return append(out, rest...), kit.CutNone
}

func (f *pskRewriter) rewrite(rec []byte) []byte {
	if rec[0] != recHandshake || len(rec) < 9 || rec[5] != hsClientHello {
		return rec
	}
	body := rec[9:]
	if int(rec[6])<<16|int(rec[7])<<8|int(rec[8]) != len(body) {
		return rec // fragmented
	}
	ch, err := parseClientHello(body)
	if err != nil || len(ch.Exts) == 0 || ch.Exts[len(ch.Exts)-1].Type != 41 {
		return rec
	}
	d := ch.Exts[len(ch.Exts)-1].Data
	r := &reader{b: d}
	ids := r.vec16()
	binders := r.vec16()
	if r.err || len(r.b) != 0 {
		return rec
	}
	ir := &reader{b: ids}
	for len(ir.b) > 0 && !ir.err {
		ir.vec16()
		ir.n(4)
		f.Identities++
	}
	_, hlen := hashForSuite13(f.Suite)
	// identities' = { Extra, age } || identities
	var nid []byte
	nid = append(nid, byte(len(f.Extra)>>8), byte(len(f.Extra)))
	nid = append(nid, f.Extra...)
	nid = append(nid, 0x12, 0x34, 0x56, 0x78)
	nid = append(nid, ids...)
	extraBinder := make([]byte, hlen)
	kit.NewRng(uint64(len(f.Extra))*0x9e37 + uint64(f.Suite)).Fill(extraBinder)
	var head, tail []byte // binder entries before / after the genuine one
	switch f.BinderMode {
	case 0:
		head = append([]byte{byte(hlen)}, extraBinder...)
	case 1:
	case 2:
		head = append([]byte{byte(hlen)}, extraBinder...)
		tail = append([]byte{byte(hlen)}, extraBinder...)
	case 3:
		head = append([]byte{5}, extraBinder[:5]...)
	}
	nbLen := len(head) + len(binders) + len(tail)
	extData := append([]byte{byte(len(nid) >> 8), byte(len(nid))}, nid...)
	extLen := len(extData) + 2 + nbLen
	// everything of the body before the pre_shared_key extension
	prefix := body[:len(body)-len(ch.ExtBlock)-2]
	extBlockHead := ch.ExtBlock[:len(ch.ExtBlock)-4-len(d)]
	newExtBlockLen := len(extBlockHead) + 4 + extLen
	var nb []byte
	nb = append(nb, prefix...)
	nb = append(nb, byte(newExtBlockLen>>8), byte(newExtBlockLen))
	nb = append(nb, extBlockHead...)
	nb = append(nb, 0, 41, byte(extLen>>8), byte(extLen))
	nb = append(nb, extData...)
	total := len(nb) + 2 + nbLen
	hdr := []byte{hsClientHello, byte(total >> 16), byte(total >> 8), byte(total)}
	truncated := append(append([]byte(nil), hdr...), nb...)
	binder := pskBinder(f.Suite, f.Secret, f.Nonce, truncated)
	if len(binders) != 1+hlen {
		return rec // the genuine hello did not carry exactly one binder of this hash
	}
	msg := append(truncated, byte(nbLen>>8), byte(nbLen))
	msg = append(msg, head...)
	msg = append(msg, byte(hlen))
	msg = append(msg, binder...)
	msg = append(msg, tail...)
	if len(msg) > 16384 {
		return rec
	}
	f.Fired = true
	return append([]byte{recHandshake, rec[1], rec[2], byte(len(msg) >> 8), byte(len(msg))}, msg...)
}

// firstServerHelloOrRetry returns the first ServerHello-typed message of a stream, HelloRetryRequest included.
func firstServerHelloOrRetry(stream []byte) (*wireServerHello, error) {
	recs, _ := parseRecords(stream)
	msgs, _ := plaintextHandshake(recs)
	for _, m := range msgs {
		if m.Type == hsServerHello {
			return parseServerHello(m.Body)
		}
	}
	return nil, nil
}
