package props

import (
	"encoding/binary"
	"fmt"
)

// Independent TLS transcript parser: record framing, handshake headers and the
// bodies the oracles need. Nothing here calls into zcrypto.

const (
	recCCS       = 20
	recAlert     = 21
	recHandshake = 22
	recAppData   = 23
)

type wireRecord struct {
	Type byte
	Vers uint16
	Off  int // offset of the 5-byte header in the stream
	Body []byte
}

func (r wireRecord) End() int { return r.Off + 5 + len(r.Body) }

// parseRecords splits a captured byte stream into records; rest is the
// incomplete tail.
func parseRecords(stream []byte) (recs []wireRecord, rest []byte) {
	off := 0
	for len(stream)-off >= 5 {
		n := int(binary.BigEndian.Uint16(stream[off+3:]))
		if len(stream)-off-5 < n {
			break
		}
		recs = append(recs, wireRecord{Type: stream[off], Vers: binary.BigEndian.Uint16(stream[off+1:]), Off: off, Body: stream[off+5 : off+5+n]})
		off += 5 + n
	}
	return recs, stream[off:]
}

type hsMsg struct {
	Type byte
	Body []byte
	Raw  []byte // header + body
}

// plaintextHandshake reassembles the handshake messages sent in the clear,
// i.e. from handshake records up to the first ChangeCipherSpec (TLS <= 1.2) or,
// for TLS 1.3, up to the first record that is not a plaintext handshake record
// (ServerHello/HelloRetryRequest are followed by a CCS or application-data
// typed records).
func plaintextHandshake(recs []wireRecord) (msgs []hsMsg, nrec int) {
	var buf []byte
	parse := func() {
		for len(buf) >= 4 {
			n := int(buf[1])<<16 | int(buf[2])<<8 | int(buf[3])
			if len(buf)-4 < n {
				break
			}
			msgs = append(msgs, hsMsg{Type: buf[0], Body: buf[4 : 4+n], Raw: buf[:4+n]})
			buf = buf[4+n:]
		}
	}
	for i, r := range recs {
		if r.Type == recCCS {
			// TLS 1.3 middlebox-compatibility CCS: sent by the server right after a
			// HelloRetryRequest and by the client before its second ClientHello. It
			// does not start encryption, so plaintext handshake messages follow.
			parse()
			only := len(msgs) > 0 && len(buf) == 0
			for _, m := range msgs {
				if m.Type == hsClientHello {
					continue
				}
				if m.Type == hsServerHello && len(m.Body) >= 34 && string(m.Body[2:34]) == string(helloRetryRandom) {
					continue
				}
				only = false
			}
			if only {
				nrec = i + 1
				continue
			}
		}
		if r.Type != recHandshake {
			nrec = i
			break
		}
		nrec = i + 1
		buf = append(buf, r.Body...)
	}
	parse()
	return msgs, nrec
}

const (
	hsClientHello       = 1
	hsServerHello       = 2
	hsNewSessionTicket  = 4
	hsCertificate       = 11
	hsServerKeyExchange = 12
	hsCertRequest       = 13
	hsServerHelloDone   = 14
	hsCertVerify        = 15
	hsClientKeyExchange = 16
	hsFinished          = 20
	hsCertStatus        = 22
)

type wireExt struct {
	Type uint16
	Data []byte
}

type wireClientHello struct {
	Vers        uint16
	Random      []byte
	SessionID   []byte
	Suites      []uint16
	Compression []byte
	Exts        []wireExt
	ExtBlock    []byte // raw extension block (without the 2-byte length), nil if absent
	HasExts     bool
}

type reader struct {
	b   []byte
	err bool
}

func (r *reader) n(k int) []byte {
	if r.err || len(r.b) < k {
		r.err = true
		return nil
	}
	v := r.b[:k]
	r.b = r.b[k:]
	return v
}
func (r *reader) u8() int {
	v := r.n(1)
	if v == nil {
		return 0
	}
	return int(v[0])
}
func (r *reader) u16() int {
	v := r.n(2)
	if v == nil {
		return 0
	}
	return int(v[0])<<8 | int(v[1])
}
func (r *reader) u24() int {
	v := r.n(3)
	if v == nil {
		return 0
	}
	return int(v[0])<<16 | int(v[1])<<8 | int(v[2])
}
func (r *reader) vec8() []byte  { return r.n(r.u8()) }
func (r *reader) vec16() []byte { return r.n(r.u16()) }
func (r *reader) vec24() []byte { return r.n(r.u24()) }

func parseExts(block []byte) ([]wireExt, error) {
	var out []wireExt
	r := &reader{b: block}
	for len(r.b) > 0 {
		t := r.u16()
		d := r.vec16()
		if r.err {
			return out, fmt.Errorf("malformed extension TLV at extension #%d", len(out))
		}
		out = append(out, wireExt{uint16(t), d})
	}
	return out, nil
}

func parseClientHello(body []byte) (*wireClientHello, error) {
	r := &reader{b: body}
	ch := &wireClientHello{}
	ch.Vers = uint16(r.u16())
	ch.Random = r.n(32)
	ch.SessionID = r.vec8()
	s := r.vec16()
	ch.Compression = r.vec8()
	if r.err || len(s)%2 != 0 {
		return nil, fmt.Errorf("malformed ClientHello")
	}
	for i := 0; i < len(s); i += 2 {
		ch.Suites = append(ch.Suites, binary.BigEndian.Uint16(s[i:]))
	}
	if len(r.b) == 0 {
		return ch, nil
	}
	ch.HasExts = true
	ch.ExtBlock = r.vec16()
	if r.err || len(r.b) != 0 {
		return nil, fmt.Errorf("malformed ClientHello extension block")
	}
	var err error
	ch.Exts, err = parseExts(ch.ExtBlock)
	return ch, err
}

func (ch *wireClientHello) ext(t uint16) ([]byte, bool) {
	for _, e := range ch.Exts {
		if e.Type == t {
			return e.Data, true
		}
	}
	return nil, false
}

type wireServerHello struct {
	Vers        uint16
	Random      []byte
	SessionID   []byte
	Suite       uint16
	Compression byte
	Exts        []wireExt
}

func parseServerHello(body []byte) (*wireServerHello, error) {
	r := &reader{b: body}
	sh := &wireServerHello{}
	sh.Vers = uint16(r.u16())
	sh.Random = r.n(32)
	sh.SessionID = r.vec8()
	sh.Suite = uint16(r.u16())
	sh.Compression = byte(r.u8())
	if r.err {
		return nil, fmt.Errorf("malformed ServerHello")
	}
	if len(r.b) > 0 {
		blk := r.vec16()
		if r.err {
			return nil, fmt.Errorf("malformed ServerHello extensions")
		}
		var err error
		sh.Exts, err = parseExts(blk)
		if err != nil {
			return nil, err
		}
	}
	return sh, nil
}

func (sh *wireServerHello) ext(t uint16) ([]byte, bool) {
	for _, e := range sh.Exts {
		if e.Type == t {
			return e.Data, true
		}
	}
	return nil, false
}

// negotiatedVersion is the version a ServerHello selects (supported_versions
// extension wins over the legacy field).
func (sh *wireServerHello) negotiatedVersion() uint16 {
	if d, ok := sh.ext(43); ok && len(d) == 2 {
		return binary.BigEndian.Uint16(d)
	}
	return sh.Vers
}

var helloRetryRandom = []byte{0xCF, 0x21, 0xAD, 0x74, 0xE5, 0x9A, 0x61, 0x11, 0xBE, 0x1D, 0x8C, 0x02, 0x1E, 0x65, 0xB8, 0x91,
	0xC2, 0xA2, 0x11, 0x16, 0x7A, 0xBB, 0x8C, 0x5E, 0x07, 0x9E, 0x09, 0xE2, 0xC8, 0xA8, 0x33, 0x9C}

func u16list(b []byte) []uint16 {
	var o []uint16
	for i := 0; i+1 < len(b); i += 2 {
		o = append(o, binary.BigEndian.Uint16(b[i:]))
	}
	return o
}

// firstMsg returns the first handshake message of the given type.
func firstMsg(msgs []hsMsg, typ byte) *hsMsg {
	for i := range msgs {
		if msgs[i].Type == typ {
			return &msgs[i]
		}
	}
	return nil
}
