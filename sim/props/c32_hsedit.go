package props

import (
	"sort"

	"verifsim/kit"
)

// Structure-aware handshake faults, second kind: a clear-text handshake message is edited *inside* — a
// length-prefixed vector is emptied, an enumerated field is overwritten, an extension is dropped or repeated —
// and every enclosing length (vectors, handshake header, record header) is fixed up, so that the message is
// perfectly framed and only its content is unusual. The layouts are written from RFC 5246 (7.4), RFC 4492 (5.4),
// RFC 6066, RFC 7301 and RFC 8446 (4.1, 4.2); no zcrypto code is consulted.

type vecField struct {
	LenOff int // offset of the length prefix in the message body
	W      int // width of the length prefix
	End    int // end of the content
	Ext    int // extension type the vector belongs to (-1: not inside an extension; -2: an extension's own data)
}

type enumField struct {
	Off, W int
	Ext    int
}

type hsLayoutInfo struct {
	Vecs  []vecField
	Enums []enumField
	Exts  [][2]int // [start, end) of every extension (type + length + data) in the body
}

type layoutReader struct {
	b   []byte
	inf *hsLayoutInfo
	ext int
}

// vec registers a w-byte-length-prefixed vector at p and returns (content start, content end) or (-1, -1).
func (l *layoutReader) vec(p, w int) (int, int) {
	if p < 0 || p+w > len(l.b) {
		return -1, -1
	}
	n := 0
	for i := 0; i < w; i++ {
		n = n<<8 | int(l.b[p+i])
	}
	if p+w+n > len(l.b) {
		return -1, -1
	}
	l.inf.Vecs = append(l.inf.Vecs, vecField{LenOff: p, W: w, End: p + w + n, Ext: l.ext})
	return p + w, p + w + n
}

func (l *layoutReader) enum(p, w int) {
	if p >= 0 && p+w <= len(l.b) {
		l.inf.Enums = append(l.inf.Enums, enumField{Off: p, W: w, Ext: l.ext})
	}
}

// list registers the elements of a list of w-byte-prefixed items in [s, e).
func (l *layoutReader) list(s, e, w int) {
	for s >= 0 && s < e {
		_, s = l.vec(s, w)
	}
}

func (l *layoutReader) extensions(p int, typ byte) {
	s, e := l.vec(p, 2)
	if s < 0 {
		return
	}
	for s+4 <= e {
		et := int(l.b[s])<<8 | int(l.b[s+1])
		l.enum(s, 2)
		l.ext = -2
		ds, de := l.vec(s+2, 2)
		if ds < 0 {
			l.ext = -1
			return
		}
		l.inf.Exts = append(l.inf.Exts, [2]int{s, de})
		l.ext = et
		switch et {
		case 0: // server_name: ServerNameList<2>{ name_type(1) HostName<2> }
			if ls, le := l.vec(ds, 2); ls >= 0 {
				for ls+3 <= le {
					l.enum(ls, 1)
					_, ls = l.vec(ls+1, 2)
					if ls < 0 {
						break
					}
				}
			}
		case 5: // status_request: type(1) responder_id_list<2> request_extensions<2>
			if de > ds {
				l.enum(ds, 1)
				if _, p2 := l.vec(ds+1, 2); p2 >= 0 {
					l.vec(p2, 2)
				}
			}
		case 10, 13, 50: // supported_groups, signature_algorithms(_cert): list<2> of 2-byte values
			if ls, le := l.vec(ds, 2); ls >= 0 {
				for q := ls; q+2 <= le && q < ls+8; q += 2 {
					l.enum(q, 2)
				}
			}
		case 11, 45: // ec_point_formats, psk_key_exchange_modes: list<1>
			if ls, le := l.vec(ds, 1); ls >= 0 && le > ls {
				l.enum(ls, 1)
			}
		case 16: // ALPN: ProtocolNameList<2>{ ProtocolName<1> }
			if ls, le := l.vec(ds, 2); ls >= 0 {
				l.list(ls, le, 1)
			}
		case 43: // supported_versions: ClientHello versions<1>; ServerHello selected_version(2)
			if typ == 1 {
				if ls, le := l.vec(ds, 1); ls >= 0 {
					for q := ls; q+2 <= le; q += 2 {
						l.enum(q, 2)
					}
				}
			} else {
				l.enum(ds, 2)
			}
		case 44: // cookie<2>
			l.vec(ds, 2)
		case 51: // key_share: ClientHello client_shares<2>{ group(2) key_exchange<2> }; ServerHello group(2) key_exchange<2>; HelloRetryRequest group(2)
			if typ == 1 {
				if ls, le := l.vec(ds, 2); ls >= 0 {
					for ls+4 <= le {
						l.enum(ls, 2)
						_, ls = l.vec(ls+2, 2)
						if ls < 0 {
							break
						}
					}
				}
			} else {
				l.enum(ds, 2)
				if de-ds > 2 {
					l.vec(ds+2, 2)
				}
			}
		case 41: // pre_shared_key: ClientHello identities<2>{ identity<2> age(4) } binders<2>{ binder<1> }; ServerHello selected_identity(2)
			if typ == 1 {
				ls, le := l.vec(ds, 2)
				for ls >= 0 && ls+6 <= le {
					_, ls = l.vec(ls, 2)
					if ls < 0 {
						break
					}
					ls += 4
				}
				if le >= 0 {
					if bs, be := l.vec(le, 2); bs >= 0 {
						l.list(bs, be, 1)
					}
				}
			} else {
				l.enum(ds, 2)
			}
		case 0xff01: // renegotiation_info: renegotiated_connection<1>
			l.vec(ds, 1)
		}
		l.ext = -1
		s = de
	}
}

// hsLayout describes the vectors and enumerated fields of a handshake message body.
func hsLayout(typ byte, b []byte) *hsLayoutInfo {
	inf := &hsLayoutInfo{}
	l := &layoutReader{b: b, inf: inf, ext: -1}
	switch typ {
	case 1: // ClientHello
		l.enum(0, 2)
		_, p := l.vec(34, 1)
		if s, e := l.vec(p, 2); s >= 0 {
			for q := s; q+2 <= e && q < s+6; q += 2 {
				l.enum(q, 2)
			}
			p = e
		} else {
			p = -1
		}
		if s, e := l.vec(p, 1); s >= 0 {
			if e > s {
				l.enum(s, 1)
			}
			l.extensions(e, typ)
		}
	case 2: // ServerHello / HelloRetryRequest
		l.enum(0, 2)
		if _, p := l.vec(34, 1); p >= 0 {
			l.enum(p, 2)
			l.enum(p+2, 1)
			l.extensions(p+3, typ)
		}
	case 4: // NewSessionTicket
		l.vec(4, 2)
	case 11: // Certificate
		if s, e := l.vec(0, 3); s >= 0 {
			l.list(s, e, 3)
		}
	case 12: // ServerKeyExchange
		if len(b) > 4 && b[0] == 3 {
			// ECDHE: curve_type(1) named_curve(2) point<1> [hash(1) sig(1)] signature<2>
			l.enum(0, 1)
			l.enum(1, 2)
			if _, p := l.vec(3, 1); p >= 0 {
				if _, e := l.vec(p, 2); e == len(b) {
					break
				}
				inf.Vecs = inf.Vecs[:len(inf.Vecs)-boolInt(len(inf.Vecs) > 1 && inf.Vecs[len(inf.Vecs)-1].LenOff == p)]
				l.enum(p, 1)
				l.enum(p+1, 1)
				l.vec(p+2, 2)
			}
		} else {
			// DHE: p<2> g<2> Ys<2> [hash(1) sig(1)] signature<2>
			_, p := l.vec(0, 2)
			_, p = l.vec(p, 2)
			_, p = l.vec(p, 2)
			if p >= 0 {
				if _, e := l.vec(p, 2); e == len(b) {
					break
				}
				inf.Vecs = inf.Vecs[:len(inf.Vecs)-boolInt(len(inf.Vecs) > 3 && inf.Vecs[len(inf.Vecs)-1].LenOff == p)]
				l.enum(p, 1)
				l.enum(p+1, 1)
				l.vec(p+2, 2)
			}
		}
	case 13: // CertificateRequest: certificate_types<1> [supported_signature_algorithms<2>] certificate_authorities<2>{ DN<2> }
		if s, p := l.vec(0, 1); s >= 0 {
			if p > s {
				l.enum(s, 1)
			}
			if s2, e2 := l.vec(p, 2); s2 >= 0 {
				if e2 == len(b) {
					l.list(s2, e2, 2)
				} else if s3, e3 := l.vec(e2, 2); s3 >= 0 {
					l.enum(s2, 2)
					l.list(s3, e3, 2)
				}
			}
		}
	case 15: // CertificateVerify: [algorithm(2)] signature<2>
		if _, e := l.vec(0, 2); e != len(b) {
			if e >= 0 {
				inf.Vecs = inf.Vecs[:len(inf.Vecs)-1]
			}
			l.enum(0, 2)
			l.vec(2, 2)
		}
	case 16: // ClientKeyExchange: exchange_keys<2> (RSA, DHE) or point<1> (ECDHE)
		if _, e := l.vec(0, 2); e != len(b) {
			if e >= 0 {
				inf.Vecs = inf.Vecs[:len(inf.Vecs)-1]
			}
			l.vec(0, 1)
		}
	case 22: // CertificateStatus: status_type(1) response<3>
		l.enum(0, 1)
		l.vec(1, 3)
	}
	return inf
}

func boolInt(b bool) int {
	if b {
		return 1
	}
	return 0
}

// hsEdit is one edit of the n-th clear-text handshake message of a direction.
type hsEdit struct {
	Dir int    `json:"dir"`
	Msg int    `json:"msg"` // index (modulo the number seen so far is NOT applied: exact index among clear-text handshake records)
	Type int   `json:"type,omitempty"` // > 0: instead of Msg, the first clear-text handshake message of this type
	Op  string `json:"op"`  // empty | shrink | set | setvec | echo_sid | sigalg | dropext | dupext
	Data []byte `json:"data,omitempty"` // setvec: the new content of the vector; echo_sid: filled in at run time with the client's session id
	Ext int    `json:"ext"` // >= 0: prefer fields inside this extension type; -1: any field
	Sel int    `json:"sel"` // selector among the candidate fields
	Val int    `json:"val"` // set: the value written (low bytes)
}

// applyHSEdit edits a handshake message body; ok = false when the edit does not apply to this message.
func applyHSEdit(typ byte, body []byte, e hsEdit) (out []byte, ok bool) {
	inf := hsLayout(typ, body)
	removeRange := func(s, en int) []byte {
		// remove body[s:en] and shrink every vector that encloses the range
		nb := append([]byte(nil), body...)
		d := en - s
		for _, v := range inf.Vecs {
			if v.LenOff+v.W <= s && v.End >= en {
				n := 0
				for i := 0; i < v.W; i++ {
					n = n<<8 | int(nb[v.LenOff+i])
				}
				n -= d
				for i := v.W - 1; i >= 0; i-- {
					nb[v.LenOff+i] = byte(n)
					n >>= 8
				}
			}
		}
		return append(nb[:s:s], nb[en:]...)
	}
	insertAt := func(p int, ins []byte) []byte {
		nb := append([]byte(nil), body...)
		for _, v := range inf.Vecs {
			if v.LenOff+v.W <= p && v.End >= p {
				n := 0
				for i := 0; i < v.W; i++ {
					n = n<<8 | int(nb[v.LenOff+i])
				}
				n += len(ins)
				if n >= 1<<(8*uint(v.W)) {
					return nil
				}
				for i := v.W - 1; i >= 0; i-- {
					nb[v.LenOff+i] = byte(n)
					n >>= 8
				}
			}
		}
		return append(append(append([]byte(nil), nb[:p]...), ins...), nb[p:]...)
	}
	replaceRange := func(s0, en int, ins []byte) []byte {
		// replace body[s0:en] by ins and adjust every vector that encloses the range
		nb := append([]byte(nil), body...)
		d := len(ins) - (en - s0)
		for _, v := range inf.Vecs {
			if v.LenOff+v.W <= s0 && v.End >= en {
				n := 0
				for i := 0; i < v.W; i++ {
					n = n<<8 | int(nb[v.LenOff+i])
				}
				n += d
				if n < 0 || n >= 1<<(8*uint(v.W)) {
					return nil
				}
				for i := v.W - 1; i >= 0; i-- {
					nb[v.LenOff+i] = byte(n)
					n >>= 8
				}
			}
		}
		return append(append(append([]byte(nil), nb[:s0]...), ins...), nb[en:]...)
	}
	switch e.Op {
	case "sigalg":
		// the signature scheme named in a ServerKeyExchange (TLS 1.2) or CertificateVerify is replaced by another
		// registered one: the peer says "ECDSA" over an RSA key, "Ed25519" over an ECDSA key, another hash, ...
		schemes := []int{0x0401, 0x0403, 0x0804, 0x0807, 0x0201, 0x0203, 0x0501, 0x0503, 0x0601, 0x0603, 0x0805, 0x0806, 0x0101, 0x0303}
		v := schemes[e.Val%len(schemes)]
		nb := append([]byte(nil), body...)
		switch typ {
		case 12:
			var one []enumField
			for _, f := range inf.Enums {
				if f.W == 1 {
					one = append(one, f)
				}
			}
			if len(one) < 3 { // curve_type, hash, signature (ECDHE) or hash, signature (DHE): needs the TLS 1.2 form
				if len(one) != 2 || len(body) == 0 || body[0] == 3 {
					return nil, false
				}
			}
			h, sg := one[len(one)-2], one[len(one)-1]
			nb[h.Off], nb[sg.Off] = byte(v>>8), byte(v)
		case 15:
			if len(inf.Enums) == 0 || inf.Enums[0].W != 2 {
				return nil, false
			}
			nb[0], nb[1] = byte(v>>8), byte(v)
		default:
			return nil, false
		}
		return nb, string(nb) != string(body)
	case "echo_sid":
		// ServerHello.session_id := the session id the client sent (a server that caches sessions by id echoes it;
		// RFC 5246 7.4.1.3) — here also when the client has nothing to resume
		if typ != 2 || len(inf.Vecs) == 0 || inf.Vecs[0].LenOff != 34 || len(e.Data) == 0 {
			return nil, false
		}
		v := inf.Vecs[0]
		nb := replaceRange(v.LenOff+v.W, v.End, e.Data)
		return nb, nb != nil
	case "setvec":
		var cand []vecField
		for _, v := range inf.Vecs {
			if e.Ext >= 0 && v.Ext != e.Ext {
				continue
			}
			cand = append(cand, v)
		}
		if len(cand) == 0 {
			return nil, false
		}
		sort.Slice(cand, func(i, j int) bool { return cand[i].LenOff < cand[j].LenOff })
		v := cand[e.Sel%len(cand)]
		nb := replaceRange(v.LenOff+v.W, v.End, e.Data)
		return nb, nb != nil
	case "empty", "shrink":
		var cand []vecField
		for _, v := range inf.Vecs {
			if v.End-(v.LenOff+v.W) == 0 {
				continue
			}
			if e.Ext >= 0 && v.Ext != e.Ext {
				continue
			}
			cand = append(cand, v)
		}
		if len(cand) == 0 {
			return nil, false
		}
		sort.Slice(cand, func(i, j int) bool { return cand[i].LenOff < cand[j].LenOff })
		v := cand[e.Sel%len(cand)]
		s := v.LenOff + v.W
		if e.Op == "shrink" && v.End-s > 1 {
			s = v.End - 1 - e.Val%(v.End-s-1) // drop only a tail of the content: the inner structure ends early
		}
		return removeRange(s, v.End), true
	case "set":
		var cand []enumField
		for _, f := range inf.Enums {
			if e.Ext >= 0 && f.Ext != e.Ext || e.Ext == -2 && f.Ext >= 0 {
				continue // (Ext -2: the message's own fields only, none inside an extension)
			}
			cand = append(cand, f)
		}
		if len(cand) == 0 {
			return nil, false
		}
		f := cand[e.Sel%len(cand)]
		nb := append([]byte(nil), body...)
		v := e.Val
		for i := f.W - 1; i >= 0; i-- {
			nb[f.Off+i] = byte(v)
			v >>= 8
		}
		if string(nb) == string(body) {
			nb[f.Off+f.W-1] ^= 0x40
		}
		return nb, true
	case "dropext", "dupext":
		if len(inf.Exts) == 0 {
			return nil, false
		}
		x := inf.Exts[e.Sel%len(inf.Exts)]
		if e.Ext >= 0 {
			for _, y := range inf.Exts {
				if int(body[y[0]])<<8|int(body[y[0]+1]) == e.Ext {
					x = y
				}
			}
		}
		if e.Op == "dropext" {
			return removeRange(x[0], x[1]), true
		}
		nb := insertAt(x[1], body[x[0]:x[1]])
		return nb, nb != nil
	}
	return nil, false
}

// hsEditFilter applies hsEdits to the clear-text handshake records of one direction.
type hsEditFilter struct {
	plan  []hsEdit
	buf   []byte
	idx   int
	done  bool
	Fired []string
	typeDone map[int]bool
}

func (f *hsEditFilter) Write(p []byte) ([]byte, int) {
	if f.done {
		return p, kit.CutNone
	}
	f.buf = append(f.buf, p...)
	var out []byte
	for len(f.buf) >= 5 {
		n := int(f.buf[3])<<8 | int(f.buf[4])
		if len(f.buf) < 5+n {
			break
		}
		rec := append([]byte(nil), f.buf[:5+n]...)
		f.buf = f.buf[5+n:]
		if rec[0] != recHandshake {
			if rec[0] == recCCS && n == 1 && f.idx < 3 {
				// TLS 1.3 middlebox-compatibility ChangeCipherSpec between the first and the second ClientHello
				out = append(out, rec...)
				continue
			}
			f.done = true
			out = append(out, rec...)
			out = append(out, f.buf...)
			f.buf = nil
			break
		}
		i := f.idx
		f.idx++
		for k := range f.plan {
			e := f.plan[k]
			if n < 4 || e.Type == 0 && e.Msg != i || e.Type > 0 && (int(rec[5]) != e.Type || f.typeDone[k]) {
				continue
			}
			l := int(rec[6])<<16 | int(rec[7])<<8 | int(rec[8])
			if l != n-4 {
				continue // several messages or a fragment in this record
			}
			if e.Type > 0 {
				if f.typeDone == nil {
					f.typeDone = map[int]bool{}
				}
				f.typeDone[k] = true
			}
			nb, ok := applyHSEdit(rec[5], rec[9:], e)
			if !ok || len(nb)+4 > 16384 {
				continue
			}
			hdr := []byte{rec[0], rec[1], rec[2], byte((len(nb) + 4) >> 8), byte(len(nb) + 4), rec[5], byte(len(nb) >> 16), byte(len(nb) >> 8), byte(len(nb))}
			rec = append(hdr, nb...)
			f.Fired = append(f.Fired, e.Op)
		}
		out = append(out, rec...)
	}
	return out, kit.CutNone
}
func (f *hsEditFilter) Closed() []byte { b := f.buf; f.buf = nil; return b }

// recInject inserts a well-framed record with a short random body in front of the k-th record of a direction
// (k counts all records, so the position may lie in the protected part of the connection).
type recInject struct {
	Dir  int `json:"dir"`
	At   int `json:"at"`   // record index
	Type int `json:"type"` // content type
	Len  int `json:"len"`  // body length
	Seed int `json:"seed"`
}

type recInjectFilter struct {
	plan  []recInject
	buf   []byte
	idx   int
	Fired int
}

func (f *recInjectFilter) Write(p []byte) ([]byte, int) {
	f.buf = append(f.buf, p...)
	var out []byte
	for len(f.buf) >= 5 {
		n := int(f.buf[3])<<8 | int(f.buf[4])
		if len(f.buf) < 5+n {
			break
		}
		rec := f.buf[:5+n]
		for _, in := range f.plan {
			if in.At == f.idx {
				body := make([]byte, in.Len)
				kit.NewRng(uint64(in.Seed)).Fill(body)
				out = append(out, byte(in.Type), rec[1], rec[2], byte(in.Len>>8), byte(in.Len))
				out = append(out, body...)
				f.Fired++
			}
		}
		out = append(out, rec...)
		f.buf = f.buf[5+n:]
		f.idx++
	}
	return out, kit.CutNone
}
func (f *recInjectFilter) Closed() []byte { b := f.buf; f.buf = nil; return b }
