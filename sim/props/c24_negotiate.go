package props

import (
	"strings"
	"bytes"
	"fmt"
	"io"
	"testing"
	"time"

	"github.com/zmap/zcrypto/tls"
	"verifsim/kit"
)

// C24: real zcrypto client and server over simnet (benign faults only) with
// swarm-sampled configurations; outcome compared with a small negotiation model.

type c24Scenario struct {
	Seed      uint64 `json:"seed"`
	Client    EndCfg `json:"client"`
	Server    EndCfg `json:"server"`
	Net       NetCfg `json:"net"`
	Resume    bool   `json:"resume"`
	Client2   []uint16 `json:"client2_suites,omitempty"` // non-nil: the client (same session cache) uses this suite list for the second connection
	Server2   []uint16 `json:"server2_suites,omitempty"` // non-nil: the server is reconfigured with this suite list (same ticket keys) before the second connection
	Downgrade uint16 `json:"downgrade,omitempty"` // transport attack: strip versions above this from the ClientHello
	Tape      []int  `json:"tape,omitempty"`
}

var allVersions = []uint16{vTLS10, vTLS11, vTLS12, vTLS13}

func genVersionRange(r *kit.Rng) (uint16, uint16) {
	if r.Chance(2, 5) {
		return 0, 0
	}
	a, b := r.Intn(4), r.Intn(4)
	if a > b {
		a, b = b, a
	}
	lo, hi := allVersions[a], allVersions[b]
	if r.Chance(1, 4) {
		lo = 0
	}
	if r.Chance(1, 4) {
		hi = 0
	}
	return lo, hi
}

func versionSet(min, max uint16) []uint16 {
	var o []uint16
	for _, v := range allVersions {
		if min != 0 && v < min {
			continue
		}
		if max != 0 && v > max {
			continue
		}
		o = append(o, v)
	}
	return o
}

func maxOf(l []uint16) uint16 {
	var m uint16
	for _, x := range l {
		if x > m {
			m = x
		}
	}
	return m
}

func sharedVersion(a, b []uint16) uint16 {
	var m uint16
	for _, x := range a {
		if u16in(x, b) && x > m {
			m = x
		}
	}
	return m
}

var allCurves = []uint16{29, 23, 24, 25}

func genCurves(r *kit.Rng) []uint16 {
	if r.Chance(3, 5) {
		return nil
	}
	p := r.Perm(4)
	n := r.Range(1, 4)
	var o []uint16
	for _, i := range p[:n] {
		o = append(o, allCurves[i])
	}
	if r.Chance(1, 4) {
		// hybrid ML-KEM groups (TLS 1.3 key_share only); mostly in front, where they matter
		hp := r.Perm(3)
		for _, i := range hp[:r.Range(1, 2)] {
			at := 0
			if r.Chance(1, 3) {
				at = r.Intn(len(o) + 1)
			}
			o = append(o[:at], append([]uint16{hybridCurves[i]}, o[at:]...)...)
		}
	}
	return o
}

var hybridCurves = []uint16{4588, 4587, 4589}

func isHybrid(c uint16) bool { return u16in(c, hybridCurves) }

// usesSystemEntropy reports whether a run can reach crypto/mlkem key generation, which reads the system DRBG
// and not Config.Rand: such runs replay logically but not byte for byte, so their determinism fingerprint is
// the scenario, not the event log.
func usesSystemEntropy(a, b []uint16) bool {
	for _, c := range append(append([]uint16(nil), a...), b...) {
		if isHybrid(c) {
			return true
		}
	}
	return false
}

func stripHybrid(c []uint16) []uint16 {
	var o []uint16
	for _, x := range c {
		if !isHybrid(x) {
			o = append(o, x)
		}
	}
	if len(c) > 0 && len(o) == 0 {
		o = []uint16{29}
	}
	return o
}

func effCurves(c []uint16) []uint16 {
	if len(c) == 0 {
		return allCurves
	}
	return c
}

var alpnUniverse = []string{"h2", "http/1.1", "sim/1", "sim/2"}

func genALPN(r *kit.Rng) []string {
	if r.Chance(2, 5) {
		return nil
	}
	p := r.Perm(len(alpnUniverse))
	var o []string
	for _, i := range p[:r.Range(1, 3)] {
		o = append(o, alpnUniverse[i])
	}
	return o
}

func genSuiteList(r *kit.Rng, core []uint16, maxN int, with13 bool) []uint16 {
	if r.Chance(3, 10) {
		return nil
	}
	var pool []uint16
	for _, s := range suiteTable {
		if s.Kx != kxTLS13 || with13 {
			pool = append(pool, s.ID)
		}
	}
	n := r.Range(1, maxN)
	var o []uint16
	for _, i := range r.Perm(len(pool))[:n] {
		o = append(o, pool[i])
	}
	if r.Chance(7, 10) {
		for _, c := range core {
			if !u16in(c, o) {
				o = append(o, c)
			}
		}
	}
	// shuffle
	p := r.Perm(len(o))
	sh := make([]uint16, len(o))
	for i, j := range p {
		sh[i] = o[j]
	}
	return sh
}

func genC24(seed uint64, tier string) any {
	r := kit.NewRng(seed)
	sc := &c24Scenario{Seed: seed}
	sc.Client.MinVersion, sc.Client.MaxVersion = genVersionRange(r)
	sc.Server.MinVersion, sc.Server.MaxVersion = genVersionRange(r)
	sc.Server.KeyKind = []string{"rsa", "p256", "p384", "ed"}[r.Pick([]int{5, 3, 1, 1})]
	// a shared core of suites that fit the server key, so that most runs negotiate
	var fit []uint16
	for _, s := range suiteTable {
		if s.Kx != kxTLS13 && s.keyOK(sc.Server.KeyKind) {
			fit = append(fit, s.ID)
		}
	}
	var core []uint16
	for _, i := range r.Perm(len(fit))[:r.Range(1, 3)] {
		core = append(core, fit[i])
	}
	if sc.Server.KeyKind == "rsa" && r.Chance(1, 4) {
		// finite-field DHE is rare in the table: make sure it is negotiated often enough
		core = []uint16{[]uint16{0x0033, 0x0039, 0x0067, 0x006b, 0x009e, 0x009f, 0xccaa, 0x0016}[r.Intn(8)]}
	}
	if r.Chance(1, 5) {
		// a second certificate of the other family (RSA vs ECDSA/Ed25519)
		if sc.Server.KeyKind == "rsa" {
			sc.Server.KeyKind2 = []string{"p256", "p384", "ed"}[r.Intn(3)]
		} else {
			sc.Server.KeyKind2 = "rsa"
		}
		// suites for the second key join the shared core in half of these runs
		if r.Bool() {
			var fit2 []uint16
			for _, s := range suiteTable {
				if s.Kx != kxTLS13 && s.keyOK(sc.Server.KeyKind2) {
					fit2 = append(fit2, s.ID)
				}
			}
			for _, i := range r.Perm(len(fit2))[:r.Range(1, 2)] {
				core = append(core, fit2[i])
			}
		}
	}
	sc.Client.Suites = genSuiteList(r, core, 6, true)
	sc.Server.Suites = genSuiteList(r, core, 8, r.Chance(1, 3))
	for _, id := range sc.Client.Suites {
		if !suiteByID[id].Std {
			sc.Client.ForceSuites = true
		}
	}
	if !sc.Client.ForceSuites && sc.Client.Suites != nil {
		sc.Client.ForceSuites = r.Chance(1, 3)
	}
	if sc.Client.ForceSuites {
		// with ForceSuites the TLS 1.3 suites are not appended automatically
		if r.Chance(2, 3) && !u16in(0x1301, sc.Client.Suites) {
			sc.Client.Suites = append(sc.Client.Suites, 0x1301)
		}
	}
	sc.Client.Curves = genCurves(r)
	sc.Server.Curves = genCurves(r)
	sc.Client.ALPN = genALPN(r)
	sc.Server.ALPN = genALPN(r)
	sc.Server.PreferServer = r.Bool()
	sc.Client.NoTickets = r.Chance(1, 6)
	sc.Server.NoTickets = r.Chance(1, 6)
	sc.Client.Cache = r.Chance(7, 10)
	sc.Resume = sc.Client.Cache && r.Chance(3, 5)
	if sc.Resume && r.Chance(1, 3) {
		// the server is reconfigured between the two connections: another explicit suite list
		for sc.Server2 == nil {
			sc.Server2 = genSuiteList(r, core[:1+r.Intn(len(core))], 5, false)
		}
		if r.Chance(1, 2) && len(sc.Server.Suites) > 1 {
			// or simply the old list without its first / last element, or reversed
			l := append([]uint16(nil), sc.Server.Suites...)
			switch r.Intn(3) {
			case 0:
				l = l[1:]
			case 1:
				l = l[:len(l)-1]
			default:
				for i, j := 0, len(l)-1; i < j; i, j = i+1, j-1 {
					l[i], l[j] = l[j], l[i]
				}
			}
			sc.Server2 = l
		}
	}
	if sc.Resume && sc.Client.Suites != nil && r.Chance(1, 4) {
		// the client is reconfigured between the two connections: its list reordered, shortened, or (TLS 1.3)
		// with the other hash's suite put first
		l := append([]uint16(nil), sc.Client.Suites...)
		switch r.Intn(4) {
		case 0:
			for i, j := 0, len(l)-1; i < j; i, j = i+1, j-1 {
				l[i], l[j] = l[j], l[i]
			}
		case 1:
			if len(l) > 1 {
				l = l[1:]
			}
		case 2:
			l = append([]uint16{0x1301}, l...)
		default:
			l = append([]uint16{0x1302}, l...)
		}
		var d []uint16
		for _, id := range l {
			if !u16in(id, d) {
				d = append(d, id)
			}
		}
		sc.Client2 = d
	}
	sc.Client.NoBuffer = r.Chance(1, 4)
	sc.Server.NoBuffer = r.Chance(1, 4)
	sc.Client.NoDynRec = r.Chance(1, 4)
	sc.Server.NoDynRec = r.Chance(1, 4)
	sc.Net = genNet(r)
	if r.Chance(1, 6) {
		// downgrade attack by the transport
		cv := versionSet(sc.Client.MinVersion, sc.Client.MaxVersion)
		sv := versionSet(sc.Server.MinVersion, sc.Server.MaxVersion)
		v := sharedVersion(cv, sv)
		var lower []uint16
		for _, x := range cv {
			if x < v && u16in(x, sv) {
				lower = append(lower, x)
			}
		}
		if len(lower) > 0 {
			sc.Downgrade = lower[r.Intn(len(lower))]
			sc.Resume = false
		}
	}
	if r.Chance(1, 5) {
		// client certificates: requested, required, verified if given, required and verified
		sc.Server.ClientAuth = 1 + r.Intn(4)
		if sc.Server.ClientAuth == 2 || sc.Server.ClientAuth == 4 || r.Bool() {
			sc.Client.ClientCert = []string{"rsa", "p256"}[r.Intn(2)]
		}
	}
	return sc
}

// helloRewriter is a protocol-aware transport fault: it removes every version
// above Max from the supported_versions extension of the first ClientHello.
type helloRewriter struct {
	Max   uint16
	buf   []byte
	done  bool
	Fired bool
}

func (h *helloRewriter) Write(p []byte) ([]byte, int) {
	if h.done {
		return p, kit.CutNone
	}
	h.buf = append(h.buf, p...)
	recs, rest := parseRecords(h.buf)
	if len(recs) == 0 {
		return nil, kit.CutNone
	}
	h.done = true
	out := h.rewrite(recs[0])
	for _, r := range recs[1:] {
		out = append(out, h.buf[r.Off:r.End()]...)
	}
	out = append(out, rest...)
	return out, kit.CutNone
}

func (h *helloRewriter) Closed() []byte {
	if h.done {
		return nil
	}
	h.done = true
	return h.buf
}

func (h *helloRewriter) rewrite(rec wireRecord) []byte {
	orig := h.buf[rec.Off:rec.End()]
	if rec.Type != recHandshake || len(rec.Body) < 4 || rec.Body[0] != hsClientHello {
		return orig
	}
	n := int(rec.Body[1])<<16 | int(rec.Body[2])<<8 | int(rec.Body[3])
	if n != len(rec.Body)-4 {
		return orig // fragmented hello: leave alone
	}
	ch, err := parseClientHello(rec.Body[4:])
	if err != nil || !ch.HasExts {
		return orig
	}
	var exts []byte
	for _, e := range ch.Exts {
		d := e.Data
		if e.Type == 43 && len(d) >= 1 {
			var keep []byte
			for _, v := range u16list(d[1:]) {
				if v <= h.Max {
					keep = append(keep, byte(v>>8), byte(v))
				}
			}
			d = append([]byte{byte(len(keep))}, keep...)
			h.Fired = true
		}
		exts = append(exts, byte(e.Type>>8), byte(e.Type), byte(len(d)>>8), byte(len(d)))
		exts = append(exts, d...)
	}
	body := rec.Body[4:]
	prefixLen := len(body) - len(ch.ExtBlock) - 2
	nb := append([]byte(nil), body[:prefixLen]...)
	if h.Max < vTLS12 {
		nb[0], nb[1] = byte(h.Max>>8), byte(h.Max) // legacy_version
	}
	nb = append(nb, byte(len(exts)>>8), byte(len(exts)))
	nb = append(nb, exts...)
	msg := append([]byte{hsClientHello, byte(len(nb) >> 16), byte(len(nb) >> 8), byte(len(nb))}, nb...)
	out := []byte{recHandshake, byte(rec.Vers >> 8), byte(rec.Vers), byte(len(msg) >> 8), byte(len(msg))}
	return append(out, msg...)
}

// connOutcome is what one simulated connection produced.
type connOutcome struct {
	CErr, SErr     error
	CState, SState tls.ConnectionState
	CEKM, SEKM     [2][]byte
	CEKMErr        [2]error
	SEKMErr        [2]error
	CGot, SGot     []byte
	CNet, SNet     *kit.Conn
	Client, Server *tls.Conn
	CDone, SDone   bool
}

var ekmLabels = [2]struct {
	Label string
	Ctx   []byte
	Len   int
}{{"EXPORTER-sim-one", nil, 32}, {"EXPORTER-sim-two", []byte("ctx"), 17}}

// startConn registers client and server tasks for one connection: handshake,
// EKM export, a ping/pong exchange and an orderly close.
func startConn(run *simRun, name string, ccfg, scfg *tls.Config, net NetCfg, filter kit.Filter) *connOutcome {
	s := run.S
	co := &connOutcome{}
	cn, sn := s.Pipe(name+"c", name+"s", net.params(), net.params())
	if filter != nil {
		cn.SetFilter(filter)
	}
	co.CNet, co.SNet = cn, sn
	co.Client = tls.Client(cn, ccfg)
	co.Server = tls.Server(sn, scfg)
	deadline := 30 * time.Second
	s.Go(name+"-client", func() {
		c := co.Client
		defer func() { co.CDone = true }()
		c.SetDeadline(s.Now().Add(deadline))
		if co.CErr = c.Handshake(); co.CErr != nil {
			c.Close()
			return
		}
		co.CState = c.ConnectionState()
		for i, l := range ekmLabels {
			co.CEKM[i], co.CEKMErr[i] = co.CState.ExportKeyingMaterial(l.Label, l.Ctx, l.Len)
		}
		if _, err := c.Write([]byte("ping-" + name)); err != nil {
			co.CErr = fmt.Errorf("client write: %w", err)
			c.Close()
			return
		}
		buf := make([]byte, 64)
		n, err := io.ReadAtLeast(c, buf, len("pong-"+name))
		co.CGot = buf[:n]
		if err != nil {
			co.CErr = fmt.Errorf("client read: %w", err)
		}
		c.Close()
	})
	s.Go(name+"-server", func() {
		c := co.Server
		defer func() { co.SDone = true }()
		c.SetDeadline(s.Now().Add(deadline))
		if co.SErr = c.Handshake(); co.SErr != nil {
			c.Close()
			return
		}
		co.SState = c.ConnectionState()
		for i, l := range ekmLabels {
			co.SEKM[i], co.SEKMErr[i] = co.SState.ExportKeyingMaterial(l.Label, l.Ctx, l.Len)
		}
		buf := make([]byte, 64)
		n, err := io.ReadAtLeast(c, buf, len("ping-"+name))
		co.SGot = buf[:n]
		if err != nil {
			co.SErr = fmt.Errorf("server read: %w", err)
			c.Close()
			return
		}
		if _, err := c.Write([]byte("pong-" + name)); err != nil {
			co.SErr = fmt.Errorf("server write: %w", err)
			c.Close()
			return
		}
		// wait for the client's close_notify
		c.Read(buf)
		c.Close()
	})
	return co
}

// aeadIDs of TLS <= 1.2 used by the one hardware-dependent preference rule.
func isAESGCM(id uint16) bool {
	s := suiteByID[id]
	return s != nil && s.Class == ccAESGCM
}
func isOtherAEAD(id uint16) bool { s := suiteByID[id]; return s != nil && s.Class == ccChaCha }

// demoteAESGCM mirrors the documented behaviour "if there is no AES-GCM
// hardware, other AEADs are preferred over AES-GCM": a stable reordering in
// which a ChaCha suite moves before an AES-GCM suite.
func demoteAESGCM(l []uint16) []uint16 {
	o := append([]uint16(nil), l...)
	// stable insertion sort with the partial order (otherAEAD < AESGCM)
	for i := 1; i < len(o); i++ {
		for j := i; j > 0 && isOtherAEAD(o[j]) && isAESGCM(o[j-1]); j-- {
			o[j], o[j-1] = o[j-1], o[j]
		}
	}
	return o
}

// defaultCore: suites every documented default configuration of this library
// family enables (ECDHE/RSA with AES-GCM, ChaCha20 or AES-CBC-SHA).
func inDefaultCore(id uint16) bool {
	s := suiteByID[id]
	if s == nil || !s.Std || s.Kx == kxDHERSA || s.Kx == kxTLS13 {
		return false
	}
	switch s.Class {
	case ccAESGCM, ccChaCha:
		return true
	case ccAESCBC:
		return s.MacLen == 20
	}
	return false
}

type c24Expect struct {
	Version     uint16
	MustFail    bool // no shared version
	MustWork    bool
	Cands       []uint16 // candidate suites in client-offered order (server list known) or nil
	ServerKnown bool
	Want        []uint16 // acceptable suites under the preference rule (nil = not determinable)
	ALPN        string
}

func c24Model(sc *c24Scenario, offered []uint16, clientVersions []uint16, clientCurves []uint16, keys []string) c24Expect {
	var e c24Expect
	sv := versionSet(sc.Server.MinVersion, sc.Server.MaxVersion)
	e.Version = sharedVersion(clientVersions, sv)
	if e.Version == 0 {
		e.MustFail = true
		return e
	}
	curveOK := false
	for _, c := range clientCurves {
		if isHybrid(c) && e.Version != vTLS13 {
			continue // the hybrid groups exist for the TLS 1.3 key_share only
		}
		if u16in(c, effCurves(sc.Server.Curves)) {
			curveOK = true
		}
	}
	// usable with (one of) the server's keys at this version
	keyFits := func(s *suiteInfo) bool {
		for _, key := range keys {
			if strings.HasPrefix(key, "strict:") {
				// several certificates: an ECDSA certificate is only *selected* for a client that lists the
				// certificate's own curve (RFC 4492 5.1); with a single certificate there is nothing to select
				key = key[7:]
				both := func(c uint16) bool { return u16in(c, clientCurves) && u16in(c, effCurves(sc.Server.Curves)) }
				if e.Version != vTLS13 && (key == "p256" && !both(23) || key == "p384" && !both(24)) {
					continue // (the server's CurvePreferences restrict the certificate curves it selects, too)
				}
			}
			if s.keyOK(key) && !(key == "ed" && e.Version < vTLS12) {
				return true
			}
		}
		return false
	}
	if e.Version == vTLS13 {
		var cands []uint16
		for _, id := range offered {
			if s := suiteByID[id]; s != nil && s.Kx == kxTLS13 {
				cands = append(cands, id)
			}
		}
		e.Cands, e.ServerKnown = cands, true
		e.MustWork = len(cands) > 0 && curveOK
		if len(cands) > 0 {
			if sc.Server.PreferServer {
				e.Want = nil // the server's own TLS 1.3 order is not documented
			} else {
				e.Want = []uint16{cands[0], demoteAESGCM(cands)[0]}
			}
		}
	} else {
		e.ServerKnown = sc.Server.Suites != nil
		var cands []uint16
		sure := false
		for _, id := range offered {
			s := suiteByID[id]
			if s == nil || !s.usableAt(e.Version) || !keyFits(s) {
				continue
			}
			if (s.Kx == kxECDHERSA || s.Kx == kxECDHEECDSA) && !curveOK {
				continue
			}
			if e.ServerKnown {
				if !u16in(id, sc.Server.Suites) {
					continue
				}
			} else if inDefaultCore(id) {
				sure = true
			}
			if !u16in(id, cands) {
				cands = append(cands, id)
			}
		}
		e.Cands = cands
		if e.ServerKnown {
			e.MustWork = len(cands) > 0
			if len(cands) == 0 {
				e.MustFail = true
			}
			if len(cands) > 0 {
				if sc.Server.PreferServer {
					for _, id := range sc.Server.Suites {
						if u16in(id, cands) {
							e.Want = []uint16{id}
							break
						}
					}
				} else {
					e.Want = []uint16{cands[0], demoteAESGCM(cands)[0]}
				}
			}
		} else {
			e.MustWork = sure
			if len(cands) == 0 {
				e.MustFail = true
			}
		}
	}
	for _, p := range sc.Server.ALPN {
		found := false
		for _, q := range sc.Client.ALPN {
			if p == q {
				found = true
			}
		}
		if found {
			e.ALPN = p
			break
		}
	}
	return e
}

func firstClientHello(stream []byte) (*wireClientHello, error) {
	recs, _ := parseRecords(stream)
	msgs, _ := plaintextHandshake(recs)
	m := firstMsg(msgs, hsClientHello)
	if m == nil {
		return nil, fmt.Errorf("no ClientHello on the wire")
	}
	return parseClientHello(m.Body)
}

func firstServerHello(stream []byte) (*wireServerHello, error) {
	recs, _ := parseRecords(stream)
	msgs, _ := plaintextHandshake(recs)
	for _, m := range msgs {
		if m.Type == hsServerHello {
			sh, err := parseServerHello(m.Body)
			if err != nil {
				return nil, err
			}
			if bytes.Equal(sh.Random, helloRetryRandom) {
				continue
			}
			return sh, nil
		}
	}
	return nil, fmt.Errorf("no ServerHello on the wire")
}

func execC24(t *testing.T, scAny any, keepLog bool) *Outcome {
	sc := scAny.(*c24Scenario)
	o := &Outcome{Counters: map[string]int{}}
	kit.Bubble(t, func() {
		run := newSimRun(sc.Seed, sc.Tape, keepLog)
		s := run.S
		scfg := serverConfig(sc.Server, s, run.R.Derive("srv-rand"))
		ccfg := clientConfig(sc.Client, s, run.R.Derive("cli-rand"))
		if sc.Client.Cache {
			ccfg.ClientSessionCache = tls.NewLRUClientSessionCache(4)
		}
		var filter kit.Filter
		var rw *helloRewriter
		if sc.Downgrade != 0 {
			rw = &helloRewriter{Max: sc.Downgrade}
			filter = rw
		}
		c1 := startConn(run, "a", ccfg, scfg, sc.Net, filter)
		s.Run()
		o.Fail = c24Check(sc, c1, false, nil, o, rw)
		if o.Fail == nil && sc.Resume && c1.CErr == nil && c1.SErr == nil {
			scfg2, sc2 := scfg, sc
			if sc.Server2 != nil {
				scfg2 = scfg.Clone() // keeps the ticket keys
				scfg2.CipherSuites = sc.Server2
				cp := *sc
				cp.Server.Suites = sc.Server2
				sc2 = &cp
				o.count("fault.server_reconfigured_between_connections", 1)
			}
			ccfg2 := ccfg
			if sc.Client2 != nil {
				ccfg2 = ccfg.Clone() // same session cache
				ccfg2.CipherSuites = sc.Client2
				ccfg2.Rand = kit.NewReader(run.R.Derive("cli-rand-2"))
				cp := *sc2
				cp.Client.Suites = sc.Client2
				sc2 = &cp
				o.count("fault.client_reconfigured_between_connections", 1)
			}
			c2 := startConn(run, "b", ccfg2, scfg2, sc.Net, nil)
			s.Run()
			o.Fail = c24Check(sc2, c2, true, c1, o, nil)
		}
		if o.Fail == nil && (len(s.Deadlock) > 0 || s.StepCapHit || s.TimeCapHit) {
			o.Fail = Failf("c24.stuck", "handshake tasks did not finish", "deadlock=%v stepcap=%v timecap=%v", s.Deadlock, s.StepCapHit, s.TimeCapHit)
		}
		for _, p := range s.Panics() {
			o.Fail = Failf("c24.panic", "panic", "task %s panicked: %v\n%s", p.Name, p.PanicVal, p.Stack)
		}
		finishOutcome(o, s)
		h := kit.NewHash64()
		h.WriteU64(s.TapeHash())
		h.WriteString(fmt.Sprintf("%+v|%+v|%v|%v", sc.Client, sc.Server, sc.Resume, sc.Downgrade))
		o.Distinct = h.Sum()
		if usesSystemEntropy(sc.Client.Curves, sc.Server.Curves) {
			o.count("probe.runs_reaching_system_entropy_mlkem", 1)
			hh := kit.NewHash64()
			hh.WriteString(fmt.Sprintf("%+v|%+v|%v|%v|%v", sc.Client, sc.Server, sc.Resume, sc.Downgrade, o.Fail == nil))
			o.LogHash = hh.Sum()
		}
	})
	return o
}

func c24Check(sc *c24Scenario, co *connOutcome, second bool, first *connOutcome, o *Outcome, rw *helloRewriter) *Failure {
	ch, err := firstClientHello(co.CNet.SentStream())
	if err != nil {
		// the client refused to start (e.g. empty version range): only legal when it has no versions at all
		if len(versionSet(sc.Client.MinVersion, sc.Client.MaxVersion)) == 0 && co.CErr != nil {
			o.count("probe.client_refused_empty_range", 1)
			return nil
		}
		return Failf("c24.nohello", "client sent no ClientHello", "%v (client err %v)", err, co.CErr)
	}
	clientVersions := versionSet(sc.Client.MinVersion, sc.Client.MaxVersion)
	// what the client offered, read from the wire
	if d, ok := ch.ext(43); ok && len(d) >= 1 {
		wireVers := u16list(d[1:])
		for _, v := range wireVers {
			if !u16in(v, clientVersions) {
				return Failf("c24.offer", "client offered a version outside its configured range", "offered %04x, configured %04x", v, clientVersions)
			}
		}
	}
	var clientCurves []uint16
	if d, ok := ch.ext(10); ok && len(d) >= 2 {
		clientCurves = u16list(d[2:])
	}
	// every offered suite must be one the client enabled (explicit list) or a TLS 1.3 suite / SCSV
	if sc.Client.Suites != nil {
		for _, id := range ch.Suites {
			if !u16in(id, sc.Client.Suites) && id != 0x00ff && id != 0x5600 {
				if s := suiteByID[id]; s != nil && s.Kx == kxTLS13 && !sc.Client.ForceSuites {
					continue
				}
				return Failf("c24.offer", "client offered a suite it did not enable", "suite %04x not in %04x", id, sc.Client.Suites)
			}
		}
	}
	effVersions := clientVersions
	if rw != nil && rw.Fired {
		var ev []uint16
		for _, v := range clientVersions {
			if v <= sc.Downgrade {
				ev = append(ev, v)
			}
		}
		effVersions = ev
		o.count("fault.downgrade_rewrite", 1)
	}
	keys := []string{sc.Server.KeyKind}
	if sc.Server.KeyKind2 != "" {
		keys = append(keys, sc.Server.KeyKind2)
	}
	// The client's preference is the order of its configured list (the suites it added itself follow): the model
	// works on the offer in *that* order, so that a hello which re-orders the configured suites shows up as a
	// violated preference.
	offered := ch.Suites
	if sc.Client.Suites != nil {
		var inOrder []uint16
		for _, id := range sc.Client.Suites {
			if u16in(id, ch.Suites) && !u16in(id, inOrder) {
				inOrder = append(inOrder, id)
			}
		}
		for _, id := range ch.Suites {
			if !u16in(id, inOrder) {
				inOrder = append(inOrder, id)
			}
		}
		offered = inOrder
	}
	exp := c24Model(sc, offered, effVersions, clientCurves, keys)
	if len(keys) > 1 {
		strict := c24Model(sc, offered, effVersions, clientCurves, []string{"strict:" + keys[0], "strict:" + keys[1]})
		exp.MustWork = strict.MustWork
	}
	if exp.MustFail || exp.MustWork {
		o.Nontrivial = true
	}
	ok := co.CErr == nil && co.SErr == nil

	if rw != nil && rw.Fired {
		return c24CheckDowngrade(sc, co, exp, clientVersions, o)
	}

	if exp.MustFail {
		if ok {
			return Failf("c24.mustfail", "handshake completed without a shared version/suite", "model version %04x candidates %04x; client state %04x/%04x", exp.Version, exp.Cands, co.CState.Version, co.CState.CipherSuite)
		}
		o.count("probe.expected_failure", 1)
		return nil
	}
	if !ok {
		if exp.MustWork {
			return Failf("c24.mustwork", "handshake failed although version and suite are shared", "version %04x candidates %04x key=%s: client err=%v server err=%v", exp.Version, exp.Cands, sc.Server.KeyKind, co.CErr, co.SErr)
		}
		o.count("probe.undetermined_failure", 1)
		return nil
	}
	o.count("probe.handshake_ok", 1)
	o.count(fmt.Sprintf("probe.version_%04x", co.CState.Version), 1)
	if si := suiteByID[co.CState.CipherSuite]; si != nil {
		o.count("probe.kx_"+[]string{"rsa", "dhe_rsa", "ecdhe_rsa", "ecdhe_ecdsa", "tls13"}[si.Kx], 1)
	}
	cs, ss := co.CState, co.SState
	if cs.Version != ss.Version || cs.CipherSuite != ss.CipherSuite || cs.NegotiatedProtocol != ss.NegotiatedProtocol || cs.DidResume != ss.DidResume {
		return Failf("c24.agree", "endpoints disagree on negotiated parameters", "client %04x/%04x/%q/resume=%v server %04x/%04x/%q/resume=%v",
			cs.Version, cs.CipherSuite, cs.NegotiatedProtocol, cs.DidResume, ss.Version, ss.CipherSuite, ss.NegotiatedProtocol, ss.DidResume)
	}
	if !cs.HandshakeComplete || !ss.HandshakeComplete {
		return Failf("c24.complete", "HandshakeComplete false after successful Handshake", "client %v server %v", cs.HandshakeComplete, ss.HandshakeComplete)
	}
	if cs.Version != exp.Version {
		return Failf("c24.version", "negotiated version is not the highest shared one", "negotiated %04x, highest shared %04x (client %04x server %04x)", cs.Version, exp.Version, clientVersions, versionSet(sc.Server.MinVersion, sc.Server.MaxVersion))
	}
	if !u16in(cs.CipherSuite, ch.Suites) {
		return Failf("c24.suite", "negotiated suite was not offered by the client", "suite %04x offered %04x", cs.CipherSuite, ch.Suites)
	}
	si := suiteByID[cs.CipherSuite]
	if si == nil || !si.usableAt(cs.Version) {
		return Failf("c24.suite", "negotiated suite is not defined for the negotiated version", "suite %04x version %04x", cs.CipherSuite, cs.Version)
	}
	chosenKey := sc.Server.KeyKind
	if sc.Server.KeyKind2 != "" {
		// which of its certificates did the server present? (The first one compatible with the client is documented
		// to be selected; preference among suites is then judged for that certificate's key.)
		chosenKey = ""
		if len(cs.PeerCertificates) > 0 {
			for _, k := range keys {
				if bytes.Equal(cs.PeerCertificates[0].Raw, pki().Server[k].DER) {
					chosenKey = k
				}
			}
		}
		if chosenKey == "" {
			return Failf("c24.cert", "server presented a certificate that is not one of its configured certificates", "keys %v", keys)
		}
		o.count("probe.multi_cert_chose_"+map[bool]string{true: "first", false: "second"}[chosenKey == sc.Server.KeyKind], 1)
		exp = c24Model(sc, offered, effVersions, clientCurves, []string{chosenKey})
	}
	if !si.keyOK(chosenKey) {
		return Failf("c24.suite", "negotiated suite cannot be authenticated with the server key", "suite %04x key %s", cs.CipherSuite, chosenKey)
	}
	if exp.ServerKnown && cs.Version != vTLS13 && !u16in(cs.CipherSuite, sc.Server.Suites) {
		return Failf("c24.suite", "negotiated suite was not enabled by the server", "suite %04x server %04x", cs.CipherSuite, sc.Server.Suites)
	}
	resumedNow := cs.DidResume
	if exp.Want != nil && !resumedNow && !u16in(cs.CipherSuite, exp.Want) {
		return Failf("c24.preference", "negotiated suite violates the documented preference rule", "chosen %04x, rule allows %04x (prefer_server=%v offered=%04x server=%04x candidates=%04x)",
			cs.CipherSuite, exp.Want, sc.Server.PreferServer, ch.Suites, sc.Server.Suites, exp.Cands)
	}
	if cs.NegotiatedProtocol != exp.ALPN {
		return Failf("c24.alpn", "ALPN protocol is not the server-preferred mutual protocol", "got %q want %q (client %q server %q)", cs.NegotiatedProtocol, exp.ALPN, sc.Client.ALPN, sc.Server.ALPN)
	}
	for i := range ekmLabels {
		if (co.CEKMErr[i] == nil) != (co.SEKMErr[i] == nil) {
			return Failf("c24.ekm", "ExportKeyingMaterial succeeds on one end only", "client err %v server err %v", co.CEKMErr[i], co.SEKMErr[i])
		}
		if co.CEKMErr[i] == nil {
			o.count("probe.ekm_compared", 1)
			if !bytes.Equal(co.CEKM[i], co.SEKM[i]) || len(co.CEKM[i]) != ekmLabels[i].Len {
				return Failf("c24.ekm", "exported keying material differs between the endpoints", "label %s: %x vs %x", ekmLabels[i].Label, co.CEKM[i], co.SEKM[i])
			}
		}
	}
	if co.CEKMErr[0] == nil && bytes.Equal(co.CEKM[0], co.CEKM[1][:min(len(co.CEKM[1]), len(co.CEKM[0]))]) {
		return Failf("c24.ekm", "EKM ignores label/context", "both labels gave %x", co.CEKM[0])
	}
	if string(co.SGot) != "ping-"+map[bool]string{false: "a", true: "b"}[second] || string(co.CGot) != "pong-"+map[bool]string{false: "a", true: "b"}[second] {
		return Failf("c24.data", "application data not exchanged after handshake", "server got %q client got %q", co.SGot, co.CGot)
	}
	// downgrade sentinel on the wire
	sh, err := firstServerHello(co.SNet.SentStream())
	if err != nil {
		return Failf("c24.wire", "no ServerHello captured", "%v", err)
	}
	serverMax := maxOf(versionSet(sc.Server.MinVersion, sc.Server.MaxVersion))
	tail := sh.Random[24:]
	s12 := bytes.Equal(tail, []byte("DOWNGRD\x01"))
	s11 := bytes.Equal(tail, []byte("DOWNGRD\x00"))
	if serverMax >= vTLS12 && cs.Version < serverMax {
		o.count("probe.sentinel_expected", 1)
		want := "DOWNGRD\x00"
		if cs.Version == vTLS12 {
			want = "DOWNGRD\x01"
		}
		if string(tail) != want {
			return Failf("c24.sentinel", "downgrade sentinel missing or wrong in ServerHello.random", "server max %04x negotiated %04x random tail %x", serverMax, cs.Version, tail)
		}
	} else if s12 || s11 {
		return Failf("c24.sentinel", "downgrade sentinel present without a downgrade", "server max %04x negotiated %04x", serverMax, cs.Version)
	}
	// resumption
	if second {
		canResume := !sc.Client.NoTickets && !sc.Server.NoTickets && sc.Client.Cache
		stillEnabled := first.CState.Version == vTLS13 || sc.Server.Suites == nil || u16in(first.CState.CipherSuite, sc.Server.Suites)
		if sc.Client2 != nil {
			// whether the session must still resume after the client changed its offer is not asserted
			canResume = canResume && cs.DidResume
		}
		if sc.Server2 != nil {
			if cs.DidResume && !stillEnabled {
				return Failf("c24.resume", "session resumed with a cipher suite the server no longer enables", "suite %04x, server list now %04x", cs.CipherSuite, sc.Server.Suites)
			}
			// whether a still-enabled session must resume after a reconfiguration is not asserted
			canResume = canResume && cs.DidResume
		}
		if cs.DidResume {
			o.count("probe.resumed", 1)
			if !canResume {
				return Failf("c24.resume", "session resumed although tickets are disabled", "client no_tickets=%v server no_tickets=%v", sc.Client.NoTickets, sc.Server.NoTickets)
			}
			if cs.Version != first.CState.Version || cs.CipherSuite != first.CState.CipherSuite {
				if cs.Version != vTLS13 || cs.Version != first.CState.Version {
					return Failf("c24.resume", "resumed session changed version or suite", "first %04x/%04x second %04x/%04x", first.CState.Version, first.CState.CipherSuite, cs.Version, cs.CipherSuite)
				}
			}
			if co.CEKMErr[0] == nil && first.CEKMErr[0] == nil && bytes.Equal(co.CEKM[0], first.CEKM[0]) {
				return Failf("c24.resume", "resumed session exports the same keying material as the original", "%x", co.CEKM[0])
			}
		} else if canResume {
			return Failf("c24.resume", "second connection did not resume although tickets are enabled on both sides", "version %04x suite %04x", cs.Version, cs.CipherSuite)
		}
	} else if cs.DidResume {
		return Failf("c24.resume", "first connection reports resumption", "")
	}
	return nil
}

func c24CheckDowngrade(sc *c24Scenario, co *connOutcome, exp c24Expect, clientVersions []uint16, o *Outcome) *Failure {
	// The transport removed the higher versions from the ClientHello. The
	// handshake can never complete on the client (the transcript differs); what
	// is checked is that a client that supports a higher version aborts right
	// after the ServerHello when the sentinel tells it so.
	if co.CErr == nil {
		return Failf("c24.downgrade", "client completed a handshake whose ClientHello was rewritten", "")
	}
	sh, err := firstServerHello(co.SNet.SentStream())
	if err != nil {
		o.count("probe.downgrade_no_serverhello", 1)
		return nil // server refused (no shared suite at the lower version): nothing more to observe
	}
	serverMax := maxOf(versionSet(sc.Server.MinVersion, sc.Server.MaxVersion))
	clientMax := maxOf(clientVersions)
	v := sh.negotiatedVersion()
	tail := string(sh.Random[24:])
	if serverMax >= vTLS12 && v < serverMax {
		want := "DOWNGRD\x00"
		if v == vTLS12 {
			want = "DOWNGRD\x01"
		}
		if tail != want {
			return Failf("c24.sentinel", "downgrade sentinel missing under a downgrade attack", "server max %04x negotiated %04x tail %x", serverMax, v, tail)
		}
		mustAbort := (clientMax == vTLS13 && v <= vTLS12) || (clientMax == vTLS12 && v <= vTLS11)
		if mustAbort {
			o.count("probe.downgrade_abort_checked", 1)
			// after its ClientHello the client must have sent nothing but an alert
			recs, _ := parseRecords(co.CNet.SentStream())
			for i, r := range recs {
				if i == 0 {
					continue
				}
				if r.Type != recAlert {
					return Failf("c24.downgrade", "client continued the handshake after a ServerHello carrying the downgrade sentinel", "record #%d type %d follows the ClientHello", i, r.Type)
				}
			}
		}
	}
	return nil
}

func shrinkC24(scAny any) []any {
	sc := scAny.(*c24Scenario)
	var out []any
	add := func(f func(c *c24Scenario)) {
		c := *sc
		c.Client.Suites = append([]uint16(nil), sc.Client.Suites...)
		c.Server.Suites = append([]uint16(nil), sc.Server.Suites...)
		if sc.Client.Suites == nil {
			c.Client.Suites = nil
		}
		if sc.Server.Suites == nil {
			c.Server.Suites = nil
		}
		f(&c)
		out = append(out, &c)
	}
	if sc.Resume {
		add(func(c *c24Scenario) { c.Resume = false })
	}
	if sc.Net.SegMode != 0 || sc.Net.ShortReads || sc.Net.LatMaxUs != 0 {
		add(func(c *c24Scenario) { c.Net = NetCfg{} })
	}
	for i := range sc.Client.Suites {
		if len(sc.Client.Suites) > 1 {
			i := i
			add(func(c *c24Scenario) { c.Client.Suites = dropIndex(c.Client.Suites, i) })
		}
	}
	for i := range sc.Server.Suites {
		if len(sc.Server.Suites) > 1 {
			i := i
			add(func(c *c24Scenario) { c.Server.Suites = dropIndex(c.Server.Suites, i) })
		}
	}
	if sc.Client.ALPN != nil || sc.Server.ALPN != nil {
		add(func(c *c24Scenario) { c.Client.ALPN, c.Server.ALPN = nil, nil })
	}
	if sc.Client.Curves != nil || sc.Server.Curves != nil {
		add(func(c *c24Scenario) { c.Client.Curves, c.Server.Curves = nil, nil })
	}
	for _, f := range []func(c *c24Scenario){
		func(c *c24Scenario) { c.Client.NoBuffer, c.Server.NoBuffer = false, false },
		func(c *c24Scenario) { c.Client.NoDynRec, c.Server.NoDynRec = false, false },
		func(c *c24Scenario) { c.Client.Cache = false; c.Resume = false },
		func(c *c24Scenario) { c.Client.NoTickets, c.Server.NoTickets = false, false },
		func(c *c24Scenario) { c.Server.PreferServer = false },
		func(c *c24Scenario) { c.Tape = nil },
	} {
		add(f)
	}
	return out
}

func init() {
	register(&Prop{
		ID: "C24", Level: "exploration", Engine: "A (lockstep scheduler, simnet, synctest bubble)",
		Rule:        "swarm-sampled (client config, server config, transport parameters, resume, downgrade attack); non-trivial = a ClientHello reached the server and the model gave a definite verdict; distinct = hash of (configs, schedule tape)",
		Real:        []string{"tls.Client/tls.Server handshakes all versions", "ConnectionState", "ExportKeyingMaterial", "LRU session cache", "ticket issue/resume"},
		Stub:        []string{"transport (simnet)", "clock (synctest bubble + Config.Time)", "entropy (seeded Config.Rand)", "PKI built from a fixed key pool"},
		Assume:      []string{"ALPN is chosen in server preference order (RFC 7301)", "server default suite list contains the ECDHE/RSA AES-GCM, ChaCha20 and AES-CBC-SHA suites", "TLS 1.3 server-side suite order under PreferServerCipherSuites is not asserted"},
		FaultKinds:  []string{"net.segments", "net.short_read", "fault.downgrade_rewrite", "probe.downgrade_abort_checked", "probe.sentinel_expected", "probe.resumed", "probe.expected_failure", "probe.handshake_ok", "probe.ekm_compared"},
		NotInjected: "fault-free configuration by design (negotiation must hold under benign transport behaviour); adversarial wire faults are C25/C32; no storage exists",
		Gen:         genC24, New: func() any { return &c24Scenario{} }, Exec: execC24, Shrink: shrinkC24,
		QuickRuns: 40000, ThoroughRuns: 1500000,
	})
}
