package props

import (
	"crypto/sha256"
	"fmt"
	"sync"

	zx509 "github.com/zmap/zcrypto/x509"
	"verifsim/kit"
)

// Seeded small PKIs for the verifier-graph properties (C10, C11): identities
// are (name, key) pairs; certificates are edges issuer → subject, built
// deterministically with the standard library and parsed by zcrypto.

type gIdent struct {
	Name string `json:"name"`
	Key  int    `json:"key"` // index into the p256 key pool
}

// gKeyName maps a key index to the committed key pool: mostly P-256, plus two RSA keys, a P-384 and an Ed25519
// key, so that issuer and subject key types differ on some edges.
func gKeyName(i int) string {
	switch i {
	case 12:
		return "rsa4"
	case 13:
		return "rsa5"
	case 14:
		return "p384_1"
	case 15:
		return "ed3"
	}
	return fmt.Sprintf("p256_%d", i)
}

type gCert struct {
	Issuer  int  `json:"issuer"`  // identity index (== Subject for self-issued)
	Subject int  `json:"subject"` // identity index
	SignKey int  `json:"sign_key"` // identity whose key actually signs (== Issuer unless the signature is deliberately bad)
	IsCA    bool `json:"ca"`
	PathLen int  `json:"pathlen"` // -1 unlimited
	Serial  int  `json:"serial"`
}

type gPKI struct {
	Idents []gIdent `json:"idents"`
	Certs  []gCert  `json:"certs"`
}

// builtCert is memoised across PKIs: it must not carry anything expressed in
// one PKI's index space.
type builtCert struct {
	K    *kit.Cert
	Z    *zx509.Certificate
	FP   string // sha-256 of the DER, hex
}

var (
	gMemoMu sync.Mutex
	gMemo   = map[string]*builtCert{}
	gIdMemo = map[string]*kit.Cert{}
)

func identCert(id gIdent) *kit.Cert {
	k := fmt.Sprintf("%s/%d", id.Name, id.Key)
	gMemoMu.Lock()
	defer gMemoMu.Unlock()
	if c, ok := gIdMemo[k]; ok {
		return c
	}
	c := kit.MakeCert(kit.CertSpec{Name: id.Name, Key: gKeyName(id.Key), IsCA: true, MaxPathLen: -1, Serial: 7})
	gIdMemo[k] = c
	return c
}

// build returns the certificate for spec c of the PKI (memoised: the same spec
// always yields the same bytes).
func (p *gPKI) build(i int) *builtCert {
	c := p.Certs[i]
	is, su, sk := p.Idents[c.Issuer], p.Idents[c.Subject], p.Idents[c.SignKey]
	key := fmt.Sprintf("%v|%v|%v|%v|%d|%d", is, su, sk, c.IsCA, c.PathLen, c.Serial)
	gMemoMu.Lock()
	if b, ok := gMemo[key]; ok {
		gMemoMu.Unlock()
		return b
	}
	gMemoMu.Unlock()
	spec := kit.CertSpec{Name: su.Name, Key: gKeyName(su.Key), IsCA: c.IsCA, MaxPathLen: c.PathLen, Serial: int64(c.Serial)}
	if !(c.Issuer == c.Subject && c.SignKey == c.Subject) {
		spec.Issuer = identCert(is)
		spec.IssuerKey = gKeyName(sk.Key)
	}
	if !c.IsCA {
		spec.DNSNames = []string{su.Name + ".sim.test"}
	}
	kc := kit.MakeCert(spec)
	z, err := zx509.ParseCertificate(kc.DER)
	if err != nil {
		panic(fmt.Sprintf("graphgen: zcrypto cannot parse generated certificate: %v", err))
	}
	sum := sha256.Sum256(kc.DER)
	b := &builtCert{K: kc, Z: z, FP: fmt.Sprintf("%x", sum)}
	gMemoMu.Lock()
	gMemo[key] = b
	gMemoMu.Unlock()
	return b
}

// verifies reports (by the standard library) whether cert i is signed by the key of identity id.
func (p *gPKI) verifies(i int, id int) bool {
	b := p.build(i)
	parent := identCert(p.Idents[id])
	return parent.Std.CheckSignature(b.K.Std.SignatureAlgorithm, b.K.Std.RawTBSCertificate, b.K.Std.Signature) == nil
}

// genPKI draws a small PKI: a layered DAG of CAs with cross-signs (cycles),
// self-issued roots, key roll-overs (same name, different key), leaves,
// optionally a dangling issuer and one bad signature.
func genPKI(r *kit.Rng, maxIdents int, deep bool) *gPKI {
	p := &gPKI{}
	n := r.Range(3, maxIdents)
	usedKeys := r.Perm(16)
	for i := 0; i < n; i++ {
		name := fmt.Sprintf("CA %d", i)
		if i > 0 && r.Chance(1, 6) {
			name = p.Idents[r.Intn(i)].Name // same subject, different key
		}
		p.Idents = append(p.Idents, gIdent{Name: name, Key: usedKeys[i]})
	}
	serial := 100
	add := func(is, su int, ca bool, pl int) {
		serial++
		p.Certs = append(p.Certs, gCert{Issuer: is, Subject: su, SignKey: is, IsCA: ca, PathLen: pl, Serial: serial})
	}
	pathlen := func() int {
		if r.Chance(1, 4) {
			return r.Intn(4)
		}
		return -1
	}
	// roots: first 1-2 identities self-issued
	nroots := r.Range(1, 2)
	for i := 0; i < nroots && i < n; i++ {
		add(i, i, true, pathlen())
	}
	if deep {
		// one long chain through all identities
		for i := 1; i < n; i++ {
			add(i-1, i, true, -1)
		}
	} else {
		for i := nroots; i < n; i++ {
			add(r.Intn(i), i, r.Chance(5, 6), pathlen())
		}
	}
	// extra edges: cross-signs in any direction (creates cycles), duplicates with other serials, self-issued non-roots
	for k := r.Intn(n + 1); k > 0; k-- {
		a, b := r.Intn(n), r.Intn(n)
		add(a, b, r.Chance(4, 5), pathlen())
	}
	if r.Chance(1, 5) {
		// bad signature: claims issuer a but is signed by someone else's key
		a, b := r.Intn(n), r.Intn(n)
		serial++
		p.Certs = append(p.Certs, gCert{Issuer: a, Subject: b, SignKey: (a + 1) % n, IsCA: true, PathLen: -1, Serial: serial})
	}
	return p
}
