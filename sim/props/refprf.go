package props

import (
	"crypto/hmac"
	"crypto/md5"
	"crypto/sha1"
	"crypto/sha256"
	"crypto/sha512"
	"hash"
)

// Reference TLS 1.0-1.2 PRF (RFC 2246 section 5, RFC 5246 section 5), written
// from the RFCs with the standard library's HMAC only.

func pHash(h func() hash.Hash, secret, seed []byte, n int) []byte {
	var out []byte
	a := seed
	for len(out) < n {
		m := hmac.New(h, secret)
		m.Write(a)
		a = m.Sum(nil)
		m = hmac.New(h, secret)
		m.Write(a)
		m.Write(seed)
		out = m.Sum(out)
	}
	return out[:n]
}

// refPRF computes PRF(secret, label, seed)[:n] for the protocol version; for
// TLS 1.2 sha384 selects the SHA-384 based PRF of the *_SHA384 suites.
func refPRF(version uint16, sha384 bool, secret []byte, label string, seed []byte, n int) []byte {
	ls := append([]byte(label), seed...)
	if version >= vTLS12 {
		if sha384 {
			return pHash(sha512.New384, secret, ls, n)
		}
		return pHash(sha256.New, secret, ls, n)
	}
	half := (len(secret) + 1) / 2
	s1, s2 := secret[:half], secret[len(secret)-half:]
	a := pHash(md5.New, s1, ls, n)
	b := pHash(sha1.New, s2, ls, n)
	for i := range a {
		a[i] ^= b[i]
	}
	return a
}

// refTranscriptHash is the handshake hash used by Finished for the version.
func refTranscriptHash(version uint16, sha384 bool, msgs [][]byte) []byte {
	if version >= vTLS12 {
		var h hash.Hash = sha256.New()
		if sha384 {
			h = sha512.New384()
		}
		for _, m := range msgs {
			h.Write(m)
		}
		return h.Sum(nil)
	}
	m5, s1 := md5.New(), sha1.New()
	for _, m := range msgs {
		m5.Write(m)
		s1.Write(m)
	}
	return s1.Sum(m5.Sum(nil))
}

// suiteUsesSHA384 lists the TLS 1.2 suites whose PRF hash is SHA-384 (RFC 5288/5289).
func suiteUsesSHA384(id uint16) bool {
	switch id {
	case 0x009d, 0x009f, 0xc02c, 0xc030, 0xc024, 0xc028, 0x00a3:
		return true
	}
	return false
}
