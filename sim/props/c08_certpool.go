package props

import (
	"bytes"
	"encoding/json"
	"encoding/pem"
	"fmt"
	"sync"
	"testing"
	"time"

	zx509 "github.com/zmap/zcrypto/x509"
	"verifsim/kit"
)

// C08: operation histories (AddCert / AppendCertsFromPEM / Sum, with
// duplicate, corrupted, truncated and foreign PEM blocks) over a fixed
// certificate universe, against an ordered-set reference model; chains returned
// by Verify are re-verified link by link with the standard library.

type c08Block struct {
	Kind string `json:"kind"` // cert | truncated | notseq | othertype | garbage
	Cert int    `json:"cert"`
}

type c08Op struct {
	Op     string     `json:"op"` // add | pem | sum | verify
	Pool   int        `json:"pool"`
	Cert   int        `json:"cert,omitempty"`
	Blocks []c08Block `json:"blocks,omitempty"`
	A      int        `json:"a"` // sum operands / verify pools: pool index, -1 = nil pool
	B      int        `json:"b"`
}

type c08Scenario struct {
	Seed uint64  `json:"seed"`
	Ops  []c08Op `json:"ops"`
}

type c08Universe struct {
	certs []*kit.Cert
	probe []*zx509.Certificate
	fp    []string
	names []string
	leafs []int
}

var (
	c08Once sync.Once
	c08U    *c08Universe
)

func c08Univ() *c08Universe {
	c08Once.Do(func() {
		u := &c08Universe{}
		add := func(name string, c *kit.Cert) int {
			u.certs = append(u.certs, c)
			u.names = append(u.names, name)
			z := zparse(c.DER)
			u.fp = append(u.fp, string(z.FingerprintSHA256))
			u.probe = append(u.probe, z) // an object that is never inserted: Contains must go by value
			return len(u.certs) - 1
		}
		ski := []byte{1, 2, 3, 4, 5, 6, 7, 8}
		root := kit.MakeCert(kit.CertSpec{Name: "Pool Root", Key: "p256_12", IsCA: true, MaxPathLen: -1, Serial: 1, SKI: []byte{9, 9, 9, 1}})
		add("root", root)
		root2 := kit.MakeCert(kit.CertSpec{Name: "Pool Root", Key: "p256_13", IsCA: true, MaxPathLen: -1, Serial: 2, SKI: []byte{9, 9, 9, 2}}) // same subject, other key
		add("root-same-name-other-key", root2)
		rootReissued := kit.MakeCert(kit.CertSpec{Name: "Pool Root", Key: "p256_12", IsCA: true, MaxPathLen: -1, Serial: 3, SKI: []byte{9, 9, 9, 1}}) // same subject and key, other certificate
		add("root-reissued", rootReissued)
		i1 := kit.MakeCert(kit.CertSpec{Name: "Pool Inter 1", Key: "p256_14", IsCA: true, MaxPathLen: -1, Issuer: root, Serial: 4, SKI: ski})
		add("inter1", i1)
		i1x := kit.MakeCert(kit.CertSpec{Name: "Pool Inter 1", Key: "p256_14", IsCA: true, MaxPathLen: -1, Issuer: root2, Serial: 5, SKI: ski}) // cross-sign of the same subject and key
		add("inter1-cross", i1x)
		i2 := kit.MakeCert(kit.CertSpec{Name: "Pool Inter 2", Key: "p256_15", IsCA: true, MaxPathLen: -1, Issuer: root, Serial: 6, SKI: ski}) // shares the SubjectKeyId of inter1, different key
		add("inter2-shared-ski", i2)
		i1fake := kit.MakeCert(kit.CertSpec{Name: "Pool Inter 1", Key: "p256_10", IsCA: true, MaxPathLen: -1, Issuer: root, Serial: 7, SKI: ski}) // same subject and SKI as inter1 but another key: must never be a verified parent of inter1's children
		add("inter1-impostor", i1fake)
		l1 := kit.MakeCert(kit.CertSpec{Name: "leaf1.pool.test", Key: "p256_9", Issuer: i1, Serial: 8, DNSNames: []string{"leaf1.pool.test"}})
		u.leafs = append(u.leafs, add("leaf1", l1))
		l2 := kit.MakeCert(kit.CertSpec{Name: "leaf2.pool.test", Key: "p256_8", Issuer: i2, Serial: 9, DNSNames: []string{"leaf2.pool.test"}})
		u.leafs = append(u.leafs, add("leaf2", l2))
		lbad := kit.MakeCert(kit.CertSpec{Name: "leaf3.pool.test", Key: "p256_7", Issuer: i1, IssuerKey: "p256_6", Serial: 10, DNSNames: []string{"leaf3.pool.test"}}) // names inter1 as issuer, signed by a stranger
		u.leafs = append(u.leafs, add("leaf-bad-signature", lbad))
		lroot := kit.MakeCert(kit.CertSpec{Name: "leaf4.pool.test", Key: "p256_5", Issuer: root, Serial: 11, DNSNames: []string{"leaf4.pool.test"}})
		u.leafs = append(u.leafs, add("leaf-under-root", lroot))
		// end-entity certificates that carry a CA's name (and key id) with another key: as pool members they are
		// candidates in a parent lookup by name / key id, and must never come back as verified parents
		add("inter1-impostor-not-a-ca", kit.MakeCert(kit.CertSpec{Name: "Pool Inter 1", Key: "p256_4", Issuer: root, Serial: 12, SKI: ski}))
		add("root-impostor-not-a-ca", kit.MakeCert(kit.CertSpec{Name: "Pool Root", Key: "p256_3", Serial: 13, SKI: []byte{9, 9, 9, 1}}))
		// CA key rollover ("new with old", RFC 4210 4.4): subject = issuer = "Pool Root", a new key, signed with the
		// old root's key: self-issued but not self-signed. Its only verified parents are the certificates of the old key.
		rollover := kit.MakeCert(kit.CertSpec{Name: "Pool Root", Key: "p256_2", IsCA: true, MaxPathLen: -1, Issuer: root, Serial: 14, SKI: []byte{9, 9, 9, 3}})
		add("root-rollover-new-with-old", rollover)
		lroll := kit.MakeCert(kit.CertSpec{Name: "leaf5.pool.test", Key: "p256_1", Issuer: rollover, Serial: 15, DNSNames: []string{"leaf5.pool.test"}})
		u.leafs = append(u.leafs, add("leaf-under-rollover", lroll))
		// the root's key certified once more with pathLenConstraint 0: a verified parent of inter1 that chain building
		// must refuse two levels above a leaf (a CA lies in between) but may use directly above one
		add("root-reissued-pathlen0", kit.MakeCert(kit.CertSpec{Name: "Pool Root", Key: "p256_12", IsCA: true, MaxPathLen: 0, Serial: 16, SKI: []byte{9, 9, 9, 1}}))
		c08U = u
	})
	return c08U
}

func genC08(seed uint64, tier string) any {
	r := kit.NewRng(seed)
	u := c08Univ()
	sc := &c08Scenario{Seed: seed}
	n := r.Range(2, 40)
	nc := len(u.certs)
	if r.Chance(1, 8) {
		// a small PKI laid out on purpose: several verified parents per level in the intermediates pool (a cross-signed
		// intermediate, the root key under three certificates one of which has pathLenConstraint 0), one anchor in the
		// roots pool; the additions come in a seeded order, ordinary operations are mixed in, then leaves are verified
		idx := func(name string) int {
			for i, x := range u.names {
				if x == name {
					return i
				}
			}
			panic("c08: no certificate " + name)
		}
		inter := []string{"inter1", "inter1-cross", "root-reissued", "root-reissued-pathlen0", "inter2-shared-ski", "root-rollover-new-with-old"}
		if r.Bool() {
			inter = inter[:4]
		}
		if r.Chance(1, 3) {
			for i, j := range r.Perm(len(inter)) {
				inter[i], inter[j] = inter[j], inter[i]
			}
		}
		for _, name := range inter {
			sc.Ops = append(sc.Ops, c08Op{Op: "add", Pool: 1, Cert: idx(name)})
			if r.Chance(1, 4) {
				sc.Ops = append(sc.Ops, c08Op{Op: "parents", Pool: 1, Cert: r.Intn(nc)})
			}
		}
		sc.Ops = append(sc.Ops, c08Op{Op: "add", Pool: 0, Cert: idx([]string{"root", "root-reissued", "root-same-name-other-key"}[r.Intn(3)])})
		for k := r.Range(1, 4); k > 0; k-- {
			sc.Ops = append(sc.Ops, c08Op{Op: "verify", Cert: u.leafs[r.Intn(len(u.leafs))], A: 0, B: 1})
		}
		n = r.Range(0, 6)
	}
	for i := 0; i < n; i++ {
		switch r.Pick([]int{5, 4, 2, 2, 2}) {
		case 4:
			sc.Ops = append(sc.Ops, c08Op{Op: "parents", Pool: r.Intn(3), Cert: r.Intn(nc)})
		case 0:
			sc.Ops = append(sc.Ops, c08Op{Op: "add", Pool: r.Intn(3), Cert: r.Intn(nc)})
		case 1:
			op := c08Op{Op: "pem", Pool: r.Intn(3)}
			for k := r.Range(0, 5); k > 0; k-- {
				kind := []string{"cert", "cert", "cert", "truncated", "notseq", "othertype", "garbage", "badnc"}[r.Intn(8)]
				op.Blocks = append(op.Blocks, c08Block{Kind: kind, Cert: r.Intn(nc)})
			}
			sc.Ops = append(sc.Ops, op)
		case 2:
			sc.Ops = append(sc.Ops, c08Op{Op: "sum", Pool: r.Intn(3), A: r.Range(-1, 2), B: r.Range(-1, 2)})
		default:
			target := u.leafs[r.Intn(len(u.leafs))]
			if r.Chance(1, 4) {
				target = r.Intn(nc) // any certificate may be what is being verified, CA certificates included
			}
			sc.Ops = append(sc.Ops, c08Op{Op: "verify", Cert: target, A: r.Intn(3), B: r.Range(-1, 2)})
		}
	}
	return sc
}

func c08PEM(u *c08Universe, blocks []c08Block) (blob []byte, valid []int) {
	var b bytes.Buffer
	for _, bl := range blocks {
		der := u.certs[bl.Cert].DER
		switch bl.Kind {
		case "cert":
			pem.Encode(&b, &pem.Block{Type: "CERTIFICATE", Bytes: der})
			valid = append(valid, bl.Cert)
		case "truncated":
			pem.Encode(&b, &pem.Block{Type: "CERTIFICATE", Bytes: der[:len(der)-17]})
		case "notseq":
			d := append([]byte(nil), der...)
			d[0] = 0x31 // SET instead of SEQUENCE: not a certificate
			pem.Encode(&b, &pem.Block{Type: "CERTIFICATE", Bytes: d})
		case "othertype":
			pem.Encode(&b, &pem.Block{Type: "X509 CRL", Bytes: der})
		case "garbage":
			pem.Encode(&b, &pem.Block{Type: "CERTIFICATE", Bytes: []byte{0x30, 0x03, 0x02, 0x01, 0x05}})
		case "badnc":
			pem.Encode(&b, &pem.Block{Type: "CERTIFICATE", Bytes: c08BadNC(der)})
		}
		b.WriteString("stray text between blocks\n")
	}
	return b.Bytes(), valid
}

// c08BadNC returns the certificate with one more extension: critical nameConstraints whose only permitted subtree
// is an iPAddress of 4 octets (RFC 5280 4.2.1.10 requires address and mask, 8 or 32 octets). Well-formed DER that
// is not a valid certificate; should the parser under test accept it after all, a block that certainly does not
// parse takes its place (the pool property is about blocks that fail to parse).
func c08BadNC(der []byte) []byte {
	garbage := []byte{0x30, 0x03, 0x02, 0x01, 0x05}
	root, _, err := parseDER(der, 0, "", nil)
	if err != nil || len(root.Children) == 0 {
		return garbage
	}
	for _, c := range root.Children[0].Children {
		if c.Tag[0] == 0xa3 && len(c.Children) == 1 {
			c.Children[0].Content = []byte{0x30, 0x16, 0x06, 0x03, 0x55, 0x1d, 0x1e, 0x01, 0x01, 0xff, 0x04, 0x0c,
				0x30, 0x0a, 0xa0, 0x08, 0x30, 0x06, 0x87, 0x04, 0x0a, 0x00, 0x00, 0x00}
			out := root.encode()
			if _, err := zx509.ParseCertificate(out); err != nil {
				return out
			}
		}
	}
	return garbage
}

type c08Model struct{ order []int } // certificate indices in first-insertion order (distinct by fingerprint = by index)

func (m *c08Model) has(i int) bool {
	for _, x := range m.order {
		if x == i {
			return true
		}
	}
	return false
}
func (m *c08Model) add(i int) {
	if !m.has(i) {
		m.order = append(m.order, i)
	}
}

func execC08(t *testing.T, scAny any, keepLog bool) *Outcome {
	sc := scAny.(*c08Scenario)
	o := &Outcome{Counters: map[string]int{}}
	u := c08Univ()
	h := kit.NewHash64()
	pools := []*zx509.CertPool{zx509.NewCertPool(), zx509.NewCertPool(), zx509.NewCertPool()}
	models := []*c08Model{{}, {}, {}}
	fresh := func(i int) *zx509.Certificate { return zparse(u.certs[i].DER) } // a distinct object per insertion: duplicates by value
	check := func(step int) *Failure {
		for pi, p := range pools {
			m := models[pi]
			if p.Size() != len(m.order) {
				return Failf("c08.size", "Size differs from the number of distinct certificates added", "step %d pool %d: Size %d model %d", step, pi, p.Size(), len(m.order))
			}
			certs := p.Certificates()
			subs := p.Subjects()
			if len(certs) != len(m.order) || len(subs) != len(m.order) {
				return Failf("c08.list", "Certificates/Subjects length differs from the model", "step %d pool %d", step, pi)
			}
			for k, idx := range m.order {
				if string(certs[k].FingerprintSHA256) != u.fp[idx] {
					return Failf("c08.order", "Certificates() is not in first-insertion order", "step %d pool %d position %d: got %s want %s", step, pi, k, c08Name(u, certs[k]), u.names[idx])
				}
				if !bytes.Equal(subs[k], u.certs[idx].Std.RawSubject) {
					return Failf("c08.order", "Subjects() does not follow Certificates()", "step %d pool %d position %d", step, pi, k)
				}
			}
			// The lists belong to the caller now: whatever it does with them (reorder, overwrite, append) must not
			// reach the pool. The next check compares the pool with the model again.
			for i, j := 0, len(certs)-1; i < j; i, j = i+1, j-1 {
				certs[i], certs[j] = certs[j], certs[i]
				subs[i], subs[j] = subs[j], subs[i]
			}
			if len(certs) > 0 {
				certs = append(certs, u.probe[(step+pi)%len(u.probe)])
				certs[0] = u.probe[step%len(u.probe)]
				subs = append(subs, []byte("scribble"))
			}
			for i := range u.certs {
				if p.Contains(u.probe[i]) != m.has(i) {
					return Failf("c08.contains", "Contains disagrees with the set of added certificates", "step %d pool %d cert %s: Contains=%v", step, pi, u.names[i], !m.has(i))
				}
			}
			for qi, q := range pools {
				want := true
				for _, idx := range models[qi].order {
					if !m.has(idx) {
						want = false
					}
				}
				if p.Covers(q) != want {
					return Failf("c08.covers", "Covers disagrees with set inclusion", "step %d: pool %d covers pool %d = %v, model %v", step, pi, qi, !want, want)
				}
			}
			if !p.Covers(nil) {
				return Failf("c08.covers", "a pool must cover the nil pool", "step %d", step)
			}
			h.WriteU64(uint64(p.Size()))
		}
		return nil
	}
	for step, op := range sc.Ops {
		switch op.Op {
		case "add":
			if models[op.Pool].has(op.Cert) {
				o.count("fault.duplicate_add", 1)
			}
			pools[op.Pool].AddCert(fresh(op.Cert))
			models[op.Pool].add(op.Cert)
		case "pem":
			blob, valid := c08PEM(u, op.Blocks)
			for _, b := range op.Blocks {
				if b.Kind != "cert" {
					o.count("fault.pem_block_"+b.Kind, 1)
				}
			}
			ok := pools[op.Pool].AppendCertsFromPEM(blob)
			for _, v := range valid {
				models[op.Pool].add(v)
			}
			if ok != (len(valid) > 0) {
				o.Fail = Failf("c08.pem", "AppendCertsFromPEM's result is not 'a certificate was parsed'", "step %d: returned %v with %d valid certificate blocks among %d", step, ok, len(valid), len(op.Blocks))
			}
		case "sum":
			var a, b *zx509.CertPool
			ma, mb := &c08Model{}, &c08Model{}
			if op.A >= 0 {
				a, ma = pools[op.A], models[op.A]
			}
			if op.B >= 0 {
				b, mb = pools[op.B], models[op.B]
			}
			if op.A < 0 || op.B < 0 {
				o.count("fault.sum_nil_operand", 1)
			}
			beforeA, beforeB := append([]int(nil), ma.order...), append([]int(nil), mb.order...)
			res := a.Sum(b)
			nm := &c08Model{}
			for _, x := range beforeA {
				nm.add(x)
			}
			for _, x := range beforeB {
				nm.add(x)
			}
			// operands must be unchanged (checked by the per-step comparison below, models were not touched)
			if op.Pool != op.A && op.Pool != op.B {
				pools[op.Pool], models[op.Pool] = res, nm
			} else {
				// the destination is one of the operands: keep the result aside in its place after checking the operands
				if f := check(step); f != nil {
					o.Fail = f
					break
				}
				pools[op.Pool], models[op.Pool] = res, nm
			}
			o.count("probe.sum", 1)
		case "parents":
			// the parent lookup itself (what chain building is given), for any certificate of the universe
			child := fresh(op.Cert)
			for _, parent := range zx509.VerifFindVerifiedParents(pools[op.Pool], child) {
				o.count("probe.parents_returned", 1)
				if !c08InModel(u, models[op.Pool], parent) {
					return failOut(o, h, sc, Failf("c08.parent", "parent lookup returned a certificate that is not a member of the pool", "step %d child %s: parent %s", step, u.names[op.Cert], c08Name(u, parent)))
				}
				ps, err1 := stdParse(parent.Raw)
				cs, err2 := stdParse(child.Raw)
				if err1 != nil || err2 != nil || ps.CheckSignature(cs.SignatureAlgorithm, cs.RawTBSCertificate, cs.Signature) != nil {
					return failOut(o, h, sc, Failf("c08.parent", "parent lookup returned a pool member whose key does not verify the child's signature", "step %d pool %d: %s as a parent of %s", step, op.Pool, c08Name(u, parent), u.names[op.Cert]))
				}
			}
			o.count("probe.parent_lookups", 1)
		case "verify":
			roots := pools[op.A]
			var inter *zx509.CertPool
			if op.B >= 0 {
				inter = pools[op.B]
			}
			leaf := fresh(op.Cert)
			cur, exp, nev, _ := leaf.Verify(zx509.VerifyOptions{Roots: roots, Intermediates: inter, CurrentTime: time.Date(2020, 1, 1, 0, 0, 0, 0, time.UTC), KeyUsages: []zx509.ExtKeyUsage{zx509.ExtKeyUsageAny}})
			member := map[string]bool{}
			for _, idx := range models[op.A].order {
				member[u.fp[idx]] = true
			}
			if op.B >= 0 {
				for _, idx := range models[op.B].order {
					member[u.fp[idx]] = true
				}
			}
			for _, chains := range [][]zx509.CertificateChain{cur, exp, nev} {
				for _, ch := range chains {
					o.count("probe.chains_checked", 1)
					for k := 0; k+1 < len(ch); k++ {
						child, parent := ch[k], ch[k+1]
						if !member[string(parent.FingerprintSHA256)] {
							return failOut(o, h, sc, Failf("c08.parent", "a chain uses a parent that is not a member of the pools given", "step %d leaf %s: parent %s", step, u.names[op.Cert], c08Name(u, parent)))
						}
						ps, err1 := stdParse(parent.Raw)
						cs, err2 := stdParse(child.Raw)
						if err1 != nil || err2 != nil || cs.CheckSignatureFrom(ps) != nil {
							return failOut(o, h, sc, Failf("c08.parent", "a chain links a child to a parent whose key does not verify the child's signature", "step %d: %s under %s", step, c08Name(u, child), c08Name(u, parent)))
						}
					}
				}
			}
			o.count("probe.verify_calls", 1)
		}
		if o.Fail != nil {
			break
		}
		if f := check(step); f != nil {
			o.Fail = f
			break
		}
	}
	return failOut(o, h, sc, o.Fail)
}

func c08InModel(u *c08Universe, m *c08Model, c *zx509.Certificate) bool {
	for _, idx := range m.order {
		if u.fp[idx] == string(c.FingerprintSHA256) {
			return true
		}
	}
	return false
}

func failOut(o *Outcome, h *kit.Hash64, sc *c08Scenario, f *Failure) *Outcome {
	o.Fail = f
	o.LogHash = h.Sum()
	sh := kit.NewHash64()
	b, _ := json.Marshal(sc)
	sh.Write(b)
	o.Distinct = sh.Sum()
	o.Nontrivial = len(sc.Ops) >= 3
	o.Steps = len(sc.Ops)
	return o
}

func c08Name(u *c08Universe, c *zx509.Certificate) string {
	for i, fp := range u.fp {
		if fp == string(c.FingerprintSHA256) {
			return u.names[i]
		}
	}
	return fmt.Sprintf("unknown(%s)", c.Subject.CommonName)
}

func shrinkC08(scAny any) []any {
	sc := scAny.(*c08Scenario)
	var out []any
	for i := len(sc.Ops) - 1; i >= 0; i-- {
		c := *sc
		c.Ops = dropIndex(sc.Ops, i)
		out = append(out, &c)
	}
	for i, op := range sc.Ops {
		for k := range op.Blocks {
			c := *sc
			c.Ops = append([]c08Op(nil), sc.Ops...)
			c.Ops[i].Blocks = dropIndex(op.Blocks, k)
			out = append(out, &c)
		}
	}
	return out
}

func init() {
	register(&Prop{
		ID: "C08", Level: "exploration", Engine: "H (single-task operation histories vs an ordered-set reference model)",
		Rule: "seeded histories of 2-40 operations over three pools and a fixed universe of 11 certificates (same subject / other key, re-issued, cross-signed, shared SubjectKeyId, impostor with the same subject and key id, bad-signature leaf): AddCert (fresh object per insertion), AppendCertsFromPEM (valid, truncated, non-SEQUENCE, foreign-type and garbage blocks with stray text in between), Sum (incl. nil operands and destination = operand), Verify with pools as roots/intermediates; all queries after every step; non-trivial = at least three operations; distinct = hash of the scenario",
		Real:   []string{"x509.CertPool: NewCertPool, AddCert, AppendCertsFromPEM, Sum, Size, Contains, Covers, Certificates, Subjects", "Certificate.Verify parent lookup (findVerifiedParents)"},
		Stub:   []string{"certificate universe from the fixed key pool", "link verification by the standard library"},
		Assume: []string{"PEM blocks carry no headers (what encoding/pem skips is then unambiguous)"},
		FaultKinds: []string{"fault.duplicate_add", "fault.pem_block_truncated", "fault.pem_block_notseq", "fault.pem_block_othertype", "fault.pem_block_garbage", "fault.sum_nil_operand", "probe.sum", "probe.verify_calls", "probe.chains_checked"},
		NotInjected: "CertPool has no locking and documents no concurrent use; no schedule, clock or transport: the simulation dimension is the history and the corrupted input blocks",
		Gen:         genC08, New: func() any { return &c08Scenario{} }, Exec: execC08, Shrink: shrinkC08,
		QuickRuns: 6000, ThoroughRuns: 600000,
	})
}
