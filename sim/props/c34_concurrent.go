package props

import (
	"bytes"
	"encoding/binary"
	"errors"
	"encoding/json"
	"fmt"
	"os"
	"strings"
	"runtime"
	"testing"
	"time"

	"github.com/zmap/zcrypto/tls"
	"verifsim/kit"
	"verifsim/vsync"
)

// C34: seeded programs of concurrent public calls on both ends of a
// connection. Engine A (this file): package tls is built with the sync shim, so
// every lock, atomic and transport operation is a scheduling point decided by
// the seeded scheduler; oracles are exact deadlock detection, a tagged-payload
// stream oracle and panic detection. Engine B (c34_race.go) runs the same
// programs free-running under the race detector.

type c34Op struct {
	Op      string `json:"op"` // write | state | handshake | setdl | setrdl | setwdl | closewrite | close | sleep
	N       int    `json:"n,omitempty"`
	DelayMs int    `json:"ms,omitempty"`
}

type c34Task struct {
	Side int     `json:"side"` // 0 client, 1 server
	Kind string  `json:"kind"` // writer | misc
	Ops  []c34Op `json:"ops"`
}

type c34Scenario struct {
	Seed     uint64    `json:"seed"`
	Engine   string    `json:"engine"` // A | B
	Version  uint16    `json:"version"`
	Suite    uint16    `json:"suite"`
	Key      string    `json:"key"`
	Net      NetCfg    `json:"net"`
	Tasks    []c34Task `json:"tasks"`
	ReadBuf  int       `json:"read_buf"`
	CancelMs int       `json:"cancel_ms,omitempty"` // engine B: HandshakeContext cancelled after this many ms (0 = background context)
	// CancelAtIO (engine B): the client's HandshakeContext is cancelled by the application at the instant its k-th
	// transport call has done its work and is about to return (a slow return); k may be the handshake's last I/O
	CancelAtIO int `json:"cancel_at_io,omitempty"`
	Renego   int       `json:"renegotiation,omitempty"` // client Config.Renegotiation (0 never, 1 once, 2 freely)
	// Reframe (engine A, TLS 1.3): bit d set = a peer-side re-framer sits on direction d (0 = client→server): it
	// re-emits the sender's application-epoch records under the same keys in another legal framing and injects up to
	// KeyUpdates KeyUpdate messages (update_requested or not), which the receiving endpoint has to process in Read while
	// its other goroutines are writing.
	// LingerMs: after its reader has seen the end of the inbound stream, a side waits this long before it calls Close
	// (an application that still has work to do); the other side then faces a silent peer
	LingerMs [2]int `json:"linger_ms,omitempty"`
	// PauseMs: after the first bytes have arrived, a side's reader stops reading for this long (a slow consumer): with
	// a small send window the other side's writes stall meanwhile
	PauseMs [2]int `json:"pause_ms,omitempty"`
	Reframe    int `json:"reframe,omitempty"`
	KeyUpdates int `json:"key_updates,omitempty"`
	Tape     []int     `json:"tape,omitempty"`
}

func genC34(seed uint64, tier string) any {
	r := kit.NewRng(seed)
	sc := &c34Scenario{Seed: seed, Engine: "A"}
	if os.Getenv("VERIF_C34_ENGINE") == "B" {
		sc.Engine = "B"
	}
	for {
		pr := c25Pairs[r.Intn(len(c25Pairs))]
		sc.Version, sc.Suite = pr[0], pr[1]
		if k := suiteByID[sc.Suite].Kx; k == kxDHERSA && !r.Chance(1, 5) {
			continue // DHE costs milliseconds per handshake
		}
		break
	}
	sc.Key = keyForSuite(r, suiteByID[sc.Suite], sc.Version)
	sc.Net = NetCfg{SegMode: r.Intn(2), MaxSeg: []int{0, 100, 1460, 16384}[r.Intn(4)], LatMinUs: []int{0, 50, 2000}[r.Intn(3)], ShortReads: r.Bool()}
	sc.Net.LatMaxUs = sc.Net.LatMinUs + []int{0, 100, 30000}[r.Intn(3)]
	if r.Chance(1, 3) {
		sc.Net.Window = []int{64, 512, 4096, 20000}[r.Intn(4)]
	}
	sc.ReadBuf = []int{1, 7, 64, 1024, 20000}[r.Intn(5)]
	sc.Renego = r.Pick([]int{2, 1, 1})
	if sc.Engine == "B" && r.Chance(1, 4) {
		sc.CancelMs = []int{1, 5, 50, 500}[r.Intn(4)]
	}
	if sc.Engine == "B" && sc.CancelMs == 0 && r.Chance(1, 3) {
		sc.CancelAtIO = r.Range(1, 12)
	}
	for side := 0; side < 2; side++ {
		if r.Chance(1, 4) {
			sc.LingerMs[side] = []int{100, 3000, 6000, 9000}[r.Intn(4)]
		}
		if sc.Net.Window > 0 && r.Chance(1, 2) {
			sc.PauseMs[side] = []int{500, 8000, 12000}[r.Intn(3)]
		}
	}
	if sc.Engine == "A" && sc.Version == vTLS13 && r.Chance(1, 2) {
		sc.Reframe = 1 + r.Intn(3)
		sc.KeyUpdates = r.Range(1, 3)
	}
	for side := 0; side < 2; side++ {
		nw := r.Range(1, 3)
		for w := 0; w < nw; w++ {
			t := c34Task{Side: side, Kind: "writer"}
			for k := r.Range(1, 5); k > 0; k-- {
				if r.Chance(1, 4) {
					t.Ops = append(t.Ops, c34Op{Op: "sleep", DelayMs: []int{0, 1, 10, 200}[r.Intn(4)]})
				}
				t.Ops = append(t.Ops, c34Op{Op: "write", N: []int{0, 1, 2, 5, 50, 500, 1300, 5000, 17000, 40000}[r.Intn(10)]})
			}
			if r.Chance(1, 5) {
				t.Ops = append(t.Ops, c34Op{Op: "closewrite"})
			}
			sc.Tasks = append(sc.Tasks, t)
		}
		nm := r.Range(0, 2)
		for m := 0; m < nm; m++ {
			t := c34Task{Side: side, Kind: "misc"}
			for k := r.Range(1, 6); k > 0; k-- {
				op := []string{"state", "state", "handshake", "setdl", "setrdl", "setwdl", "sleep", "closewrite", "close", "hello_request", "key_update_kill", "key_update_raw", "ccs_flood"}[r.Pick([]int{4, 4, 3, 2, 2, 2, 3, 1, 1, 2, 3, 3, 2})]
				if op == "hello_request" && (side != 1 || sc.Version == vTLS13) || (op == "key_update_kill" || op == "key_update_raw" || op == "ccs_flood") && sc.Version != vTLS13 {
					op = "handshake"
				}
				t.Ops = append(t.Ops, c34Op{Op: op, DelayMs: []int{1, 20, 300, 3000}[r.Intn(4)]})
			}
			sc.Tasks = append(sc.Tasks, t)
		}
	}
	if r.Chance(1, 8) {
		// "stall and close": one side's writers fill a small send window while the other side's reader pauses; then
		// that side half-closes and/or closes. The interesting calls (Write stalled in the transport, CloseWrite,
		// Close, the blocked Read) all overlap.
		x := r.Intn(2)
		sc.Net.Window = []int{64, 512, 4096}[r.Intn(3)]
		sc.PauseMs = [2]int{}
		sc.PauseMs[1-x] = []int{8000, 12000}[r.Intn(2)]
		var tasks []c34Task
		for _, t := range sc.Tasks {
			if t.Side != x {
				tasks = append(tasks, t)
			}
		}
		for w := r.Range(1, 2); w > 0; w-- {
			t := c34Task{Side: x, Kind: "writer"}
			for k := r.Range(1, 3); k > 0; k-- {
				t.Ops = append(t.Ops, c34Op{Op: "write", N: []int{50, 500, 5000, 17000}[r.Intn(4)]})
			}
			tasks = append(tasks, t)
		}
		m := c34Task{Side: x, Kind: "misc", Ops: []c34Op{{Op: "sleep", DelayMs: []int{10, 300, 2000}[r.Intn(3)]}}}
		if r.Bool() {
			m.Ops = append(m.Ops, c34Op{Op: "closewrite"}, c34Op{Op: "sleep", DelayMs: []int{10, 6000}[r.Intn(2)]})
		}
		m.Ops = append(m.Ops, c34Op{Op: "close"})
		sc.Tasks = append(tasks, m)
	}
	if sc.Engine != "B" && r.Chance(1, 12) {
		// "half-close into a full window": the peer's reader pauses after its first bytes, a second small Write fills what
		// is left of a 64-byte send window, and CloseWrite's alert then cannot be written within its 5 s guard. Much
		// later (the peer reads again) the application re-arms the write deadline and writes: the write side is shut.
		x := r.Intn(2)
		sc.Net.Window, sc.Net.SegMode, sc.Net.MaxSeg = 64, 0, 0
		sc.PauseMs, sc.LingerMs = [2]int{}, [2]int{}
		sc.PauseMs[1-x] = 8000
		var tasks []c34Task
		for _, t := range sc.Tasks {
			if t.Side != x && t.Kind == "writer" && r.Bool() {
				tasks = append(tasks, t)
			}
		}
		w := c34Task{Side: x, Kind: "writer", Ops: []c34Op{{Op: "write", N: 5}, {Op: "sleep", DelayMs: 100}, {Op: "write", N: []int{12, 16, 20, 24}[r.Intn(4)]},
			{Op: "closewrite"}, {Op: "sleep", DelayMs: 9000}, {Op: "setwdl", DelayMs: 3000}, {Op: "write", N: 5}}}
		sc.Tasks = append(tasks, w)
		sc.Reframe, sc.KeyUpdates = 0, 0
	}
	total := 0
	for _, t := range sc.Tasks {
		for _, op := range t.Ops {
			total += op.N
		}
	}
	if total > 3000 && sc.ReadBuf < 64 {
		sc.ReadBuf = 64 // byte-wise reads of large streams only multiply steps
	}
	return sc
}

// payload builds the tagged payload of one Write: writer id, sequence number,
// body length, then a body that is a function of (writer, sequence, position).
func c34Payload(writer, seq, n int) []byte {
	if n < 5 {
		n = 5
	}
	b := make([]byte, n)
	b[0] = byte(0xA0 | writer)
	binary.BigEndian.PutUint16(b[1:], uint16(seq))
	binary.BigEndian.PutUint16(b[3:], uint16(n-5))
	for i := 5; i < n; i++ {
		b[i] = byte((i*7 + writer*31 + seq*13) ^ 0x5c)
	}
	return b
}

type c34WriteRec struct {
	Writer, Seq, Len int
	OK              bool // Write returned (len, nil)
}

// checkTaggedStream parses what one side received. complete says the reader
// drained to a clean EOF, in which case every acknowledged write before the
// sender's close must be present.
func checkTaggedStream(recv []byte, writes []c34WriteRec, complete bool) *Failure {
	seen := map[[2]int]bool{}
	lastSeq := map[int]int{}
	off := 0
	for off < len(recv) {
		if len(recv)-off < 5 {
			if complete {
				return Failf("c34.stream", "stream ends inside a payload header although the reader reached EOF", "offset %d of %d", off, len(recv))
			}
			break
		}
		if recv[off]&0xf0 != 0xA0 {
			return Failf("c34.stream", "received bytes do not form whole payloads (records of different writes interleaved or bytes lost)", "offset %d: byte %02x is not a payload header", off, recv[off])
		}
		w := int(recv[off] & 0x0f)
		seq := int(binary.BigEndian.Uint16(recv[off+1:]))
		n := int(binary.BigEndian.Uint16(recv[off+3:])) + 5
		end := off + n
		if end > len(recv) {
			if complete {
				return Failf("c34.stream", "stream ends inside a payload although the reader reached EOF", "writer %d seq %d: %d of %d bytes", w, seq, len(recv)-off, n)
			}
			end = len(recv)
		}
		want := c34Payload(w, seq, n)
		for i := off; i < end; i++ {
			if recv[i] != want[i-off] {
				return Failf("c34.stream", "payload bytes corrupted or interleaved", "writer %d seq %d: byte %d differs", w, seq, i-off)
			}
		}
		if seen[[2]int{w, seq}] {
			return Failf("c34.stream", "payload delivered twice", "writer %d seq %d", w, seq)
		}
		seen[[2]int{w, seq}] = true
		if last, ok := lastSeq[w]; ok && seq <= last {
			return Failf("c34.stream", "payloads of one writer delivered out of order", "writer %d: seq %d after %d", w, seq, last)
		}
		lastSeq[w] = seq
		found := false
		for _, wr := range writes {
			if wr.Writer == w && wr.Seq == seq && wr.Len == n {
				found = true
			}
		}
		if !found {
			return Failf("c34.stream", "received a payload nobody wrote", "writer %d seq %d len %d", w, seq, n)
		}
		off = end
	}
	if complete {
		for _, wr := range writes {
			if wr.OK && !seen[[2]int{wr.Writer, wr.Seq}] {
				return Failf("c34.lost", "a Write that returned success before the orderly close never reached the peer", "writer %d seq %d len %d", wr.Writer, wr.Seq, wr.Len)
			}
		}
	}
	return nil
}

// simSched adapts the lockstep scheduler to the shim.
type simSched struct{ s *kit.Sim }

func callSite() string {
	_, f, l, ok := runtime.Caller(3)
	if !ok {
		return "?"
	}
	for i := len(f) - 1; i >= 0; i-- {
		if f[i] == '/' {
			f = f[i+1:]
			break
		}
	}
	return fmt.Sprintf("%s:%d", f, l)
}

func (a simSched) Block(point string, enabled func() bool) {
	if !a.s.InTask() {
		return
	}
	a.s.Block(point+"@"+callSite(), enabled, 0)
}
func (a simSched) Yield(point string) {
	if !a.s.InTask() {
		return
	}
	a.s.Yield(point)
}

type c34Side struct {
	conn      *tls.Conn
	recv      []byte
	readErr   error
	cleanEOF  bool
	writes    []c34WriteRec
	closedAt  int // number of writes recorded when the first local close/closewrite was issued (-1 = never)
	inFlight  int  // Write calls currently executing on this side
	timedOut  string // error text of the first Write that timed out on this side (the transport's write deadline expired during the call)
	timedOutStep int // scheduler step at which that Write returned
	abrupt    bool // a Close was issued while a Write was executing, or a Write failed: the stream may legitimately end mid-payload
	abruptAt  int  // scheduler step at which abrupt was first set (0 = never)
	localClose bool // a task of this side called Close
	readErrAt int  // scheduler step at which the reader stopped
	idleEnd   bool // the reader stopped because nothing arrived for the whole patience interval
	sticky    bool // Read kept returning a timeout although its deadline had been moved into the future
	rdlDone   time.Time   // read deadline of the last completed SetDeadline/SetReadDeadline call on this side
	rdlPending []time.Time // read deadlines of such calls that are executing right now
	rdlPendIdx []int       // their positions in rdlLog
	rdlLog     []time.Time // every read deadline the application has set or started to set, in order
	rdlDoneIdx int         // position in rdlLog of the last call that has returned
	spurious  string      // a Read timed out before every read deadline the application had set
	eofAgain  string      // a Read issued after the clean end of the stream did not report EOF again
	closeRet  time.Time   // when the first Close call of this side returned
	closeDur  time.Duration // how long the slowest Close call of this side took (minus 5 s per overlapping CloseWrite)
	cwActive, cwDone int    // CloseWrite calls of this side in progress / completed
	closeWithInFlight bool  // the "close" operation found a Write of this side in flight
	cwShutStep       int    // scheduler step at which the first CloseWrite that shut the write side returned
	blockedAfterClose time.Duration // longest time a Read stayed blocked after a Close call on this side had returned
	paused    bool
	wdlMin    time.Time   // earliest write deadline the application has ever set on this side (a Read may have to write)
	hsErr     error
	nextSeq   map[int]int
}

func execC34(t *testing.T, scAny any, keepLog bool) *Outcome {
	sc := scAny.(*c34Scenario)
	if sc.Engine == "B" {
		return execC34B(t, sc, keepLog)
	}
	o := &Outcome{Counters: map[string]int{}}
	kit.Bubble(t, func() {
		run := newSimRun(sc.Seed, sc.Tape, keepLog)
		s := run.S
		s.MaxSteps = 400000
		vsync.Sched = simSched{s}
		vsync.Mode = vsync.ModeLockstep
		vsync.LockOps, vsync.ContendedOps = 0, 0
		defer func() { vsync.Mode = vsync.ModeReal; vsync.Sched = nil }()
		ecfg := EndCfg{MinVersion: sc.Version, MaxVersion: sc.Version, Suites: []uint16{sc.Suite}, ForceSuites: true, KeyKind: sc.Key, NoTickets: sc.Seed%3 == 0}
		scfg := serverConfig(ecfg, s, run.R.Derive("srv-rand"))
		ccfg := clientConfig(ecfg, s, run.R.Derive("cli-rand"))
		ccfg.Renegotiation = tls.RenegotiationSupport(sc.Renego)
		nets := [2]*kit.Conn{}
		cn, sn := s.Pipe("c", "s", sc.Net.params(), sc.Net.params())
		sides := [2]*c34Side{{conn: tls.Client(cn, ccfg), closedAt: -1, nextSeq: map[int]int{}}, {conn: tls.Server(sn, scfg), closedAt: -1, nextSeq: map[int]int{}}}
		nets[0], nets[1] = cn, sn
		var keylog bytes.Buffer
		var reframes [2]*reframe13
		if sc.Reframe != 0 {
			ccfg.KeyLogWriter, scfg.KeyLogWriter = &keylog, &keylog
			for d := 0; d < 2; d++ {
				if sc.Reframe&(1<<uint(d)) != 0 {
					reframes[d] = &reframe13{Suite: sc.Suite, Label: []string{"CLIENT_TRAFFIC_SECRET_0", "SERVER_TRAFFIC_SECRET_0"}[d], KeyLog: &keylog,
						Rng: kit.NewRng(sc.Seed ^ uint64(0x34f0+d)), Rate: 2, KeyUpdates: sc.KeyUpdates}
					nets[d].SetFilter(reframes[d])
				}
			}
		}
		// every read-deadline change goes through setRDL, so that the harness knows which deadlines can be in effect
		setRDL := func(sd *c34Side, t time.Time, both bool) {
			sd.rdlPending = append(sd.rdlPending, t)
			sd.rdlLog = append(sd.rdlLog, t)
			myIdx := len(sd.rdlLog) - 1
			sd.rdlPendIdx = append(sd.rdlPendIdx, myIdx)
			if both && (sd.wdlMin.IsZero() || t.Before(sd.wdlMin)) {
				sd.wdlMin = t
			}
			if both {
				sd.conn.SetDeadline(t)
			} else {
				sd.conn.SetReadDeadline(t)
			}
			for i, p := range sd.rdlPending {
				if p.Equal(t) {
					sd.rdlPending = append(sd.rdlPending[:i], sd.rdlPending[i+1:]...)
					break
				}
			}
			for i, p := range sd.rdlPendIdx {
				if p == myIdx {
					sd.rdlPendIdx = append(sd.rdlPendIdx[:i], sd.rdlPendIdx[i+1:]...)
					break
				}
			}
			sd.rdlDone = t
			sd.rdlDoneIdx = myIdx
		}
		markAbrupt := func(sd *c34Side) {
			if !sd.abrupt {
				sd.abrupt, sd.abruptAt = true, s.Steps+1
			}
		}
		// a close_notify that could not be written completely (a write deadline moved by another goroutine expired in
		// the middle of the alert record) leaves a cut record on the wire: the side ended abruptly
		// timedClose runs Close and remembers when it returned and how long it took
		timedClose := func(sd *c34Side) error {
			t0 := s.Now()
			wasAbrupt := sides[0].abrupt || sides[1].abrupt
			if sd.closeWithInFlight {
				markAbrupt(sd)
			}
			cw0 := sd.cwDone
			active0 := sd.cwActive
			err := sd.conn.Close()
			// every CloseWrite of this side that overlapped the call may have held the write side for its own 5 s guard
			d := s.Now().Sub(t0) - time.Duration(active0+(sd.cwDone+sd.cwActive-cw0-active0))*5*time.Second
			// (once something has gone wrong on the connection a Read may be busy sending a fatal alert to a peer that
			// does not read, holding the write side until its deadline: only calls on an undisturbed connection count)
			if d > sd.closeDur && !wasAbrupt {
				sd.closeDur = d
			}
			if sd.closeRet.IsZero() {
				sd.closeRet = s.Now()
			}
			return err
		}
		closeErr := func(sd *c34Side, err error) {
			// (Close wraps the alert's error: look through the chain)
			for e := err; e != nil; e = errors.Unwrap(e) {
				if ne, ok := e.(interface{ Timeout() bool }); ok && ne.Timeout() {
					markAbrupt(sd)
					o.count("probe.close_notify_timed_out", 1)
					break
				}
			}
		}
		// every blocking call has a deadline: the property's precondition
		base := 20 * time.Second
		for side := 0; side < 2; side++ {
			sd := sides[side]
			side := side
			// the reader: sets the deadline, drives the handshake through Read, drains until EOF or error, then closes
			s.Go(fmt.Sprintf("reader%d", side), func() {
				setRDL(sd, s.Now().Add(base), true)
				buf := make([]byte, sc.ReadBuf)
				lastProgress := s.Now()
				spins := 0
				for {
					t0 := s.Now()
					rdl0 := sd.rdlDoneIdx // the read deadline in effect when the call starts (or one being set just then); later entries are set during the call
					for _, p := range sd.rdlPendIdx {
						if p < rdl0 {
							rdl0 = p
						}
					}
					n, err := sd.conn.Read(buf)
					sd.recv = append(sd.recv, buf[:n]...)
					if !sd.closeRet.IsZero() {
						// how long after Close had returned (or, if later, after it was called) did this Read return?
						ref := sd.closeRet
						if t0.After(ref) {
							ref = t0
						}
						if d := s.Now().Sub(ref); d > sd.blockedAfterClose {
							sd.blockedAfterClose = d
						}
					}
					if n > 0 {
						lastProgress, spins = s.Now(), 0
						if !sd.paused && sc.PauseMs[side] > 0 && err == nil {
							sd.paused = true
							s.Sleep(time.Duration(sc.PauseMs[side]) * time.Millisecond)
							lastProgress = s.Now()
							setRDL(sd, lastProgress.Add(base), false) // (the read deadline only: a write deadline set now would replace the 5 s guard of a CloseWrite/Close in progress)
						}
					}
					if ne, ok := err.(interface{ Timeout() bool }); err != nil && ok && ne.Timeout() && sd.spurious == "" && !sd.localClose {
						// which read deadlines can have ended the call? the one in effect when it started and every one set
						// (or being set) since then — the task that moved the deadline may have moved it again before
						// this task got to look
						earliest := sd.rdlDone
						for _, p := range sd.rdlPending {
							if p.Before(earliest) {
								earliest = p
							}
						}
						for _, p := range sd.rdlLog[rdl0:] {
							if p.Before(earliest) {
								earliest = p
							}
						}
						// (a Read that has to write — handshake, renegotiation, KeyUpdate reply — can also fail on a write
						// deadline: only a Read on an established, undisturbed connection whose write deadlines all lie
						// in the future is judged)
						if s.Now().Before(earliest) && s.Now().Before(sd.wdlMin) && !sd.abrupt && sd.conn.ConnectionState().HandshakeComplete {
							sd.spurious = fmt.Sprintf("Read returned %v at %v, %v before the earliest read deadline the application had set", err, s.Now().Sub(kit.SimEpoch), earliest.Sub(s.Now()))
						}
					}
					if err != nil {
						// A read deadline moved by another goroutine (SetDeadline / SetReadDeadline) interrupts a blocked Read
						// with a timeout; the application moves the deadline and reads on. Only 'base' without any
						// byte ends the reader.
						if ne, ok := err.(interface{ Timeout() bool }); ok && ne.Timeout() && !sd.localClose && s.Now().Sub(lastProgress) < base &&
							sd.conn.ConnectionState().HandshakeComplete {
							if s.Now().Equal(t0) {
								spins++
							} else {
								spins = 0
							}
							if spins >= 4 {
								sd.sticky = true
								sd.readErr, sd.readErrAt = err, s.Steps
								break
							}
							o.count("probe.read_resumed_after_timeout", 1)
							setRDL(sd, lastProgress.Add(base), false)
							continue
						}
						sd.readErr, sd.readErrAt = err, s.Steps
						sd.cleanEOF = err.Error() == "EOF"
						if ne, ok := err.(interface{ Timeout() bool }); ok && ne.Timeout() && s.Now().Sub(lastProgress) >= base {
							sd.idleEnd = true
						}
						break
					}
				}
				// An application may well call Read again after the stream has ended (a second reader, a retry loop):
				// that call returns too — at once after a clean EOF, and with EOF again.
				if !sd.localClose && !sd.sticky {
					tAgain := s.Now()
					_, err2 := sd.conn.Read(buf)
					if sd.cleanEOF && !sd.abrupt && (err2 == nil || err2.Error() != "EOF" || s.Now().Sub(tAgain) > time.Second) {
						sd.eofAgain = fmt.Sprintf("a Read after the peer's close_notify returned %v after %v (the first one returned EOF)", err2, s.Now().Sub(tAgain))
					}
				}
				if sd.cleanEOF && sc.LingerMs[side] > 0 {
					s.Sleep(time.Duration(sc.LingerMs[side]) * time.Millisecond)
				}
				if sd.closedAt < 0 {
					sd.closedAt = len(sd.writes)
				}
				if sd.inFlight > 0 {
					markAbrupt(sd)
				}
				closeErr(sd, timedClose(sd))
			})
		}
		wid := 0
		torn := ""
		ackAfterTimeout := ""
		writeAfterShut := ""
		for ti, tk := range sc.Tasks {
			tk := tk
			sd := sides[tk.Side]
			myWriter := wid
			if tk.Kind == "writer" {
				wid++
			}
			s.Go(fmt.Sprintf("%s%d.%d", tk.Kind, tk.Side, ti), func() {
				for _, op := range tk.Ops {
					switch op.Op {
					case "write":
						seq := sd.nextSeq[myWriter]
						sd.nextSeq[myWriter]++
						p := c34Payload(myWriter, seq, op.N)
						idx := len(sd.writes)
						sd.writes = append(sd.writes, c34WriteRec{Writer: myWriter, Seq: seq, Len: len(p)})
						sd.inFlight++
						wt0, step0 := nets[tk.Side].WriteTimeouts, s.Steps
						n, err := sd.conn.Write(p)
						sd.inFlight--
						if err == nil && n == len(p) && (sd.closedAt < 0 || idx < sd.closedAt) {
							sd.writes[idx].OK = true
						}
						if err == nil && n != len(p) {
							torn = fmt.Sprintf("side %d: Write of %d bytes returned (%d, nil)", tk.Side, len(p), n)
						}
						if err == nil && sd.cwShutStep > 0 && step0 > sd.cwShutStep && writeAfterShut == "" {
							writeAfterShut = fmt.Sprintf("side %d: Write of %d bytes, started after CloseWrite had returned, reported success", tk.Side, len(p))
						}
						if err == nil && sd.timedOut != "" && step0 > sd.timedOutStep {
							// documented: "After a Write has timed out, the TLS state is corrupt and all future writes will return the same error."
							// (future writes: calls that start after the timed-out one has returned; a Write that fails with the
							// read timeout of a renegotiation it had to wait for has not timed out as a write)
							ackAfterTimeout = fmt.Sprintf("side %d: Write of %d bytes returned success after an earlier Write had timed out (%s)", tk.Side, len(p), sd.timedOut)
						}
						if err != nil {
							if n > 0 || sd.closedAt < 0 || err.Error() != "tls: protocol is shutdown" {
								// e.g. a write deadline expired in the middle of a payload; only the refusal to write after
								// the local close_notify leaves the connection state untouched
								markAbrupt(sd)
							}
							if ne, ok := err.(interface{ Timeout() bool }); ok && ne.Timeout() && sd.closedAt < 0 {
								// an application that retries after a timeout: move the deadline and go on writing
								if nets[tk.Side].WriteTimeouts > wt0 && sd.timedOut == "" {
									sd.timedOut, sd.timedOutStep = err.Error(), s.Steps
								}
								o.count("probe.write_timed_out_then_retried", 1)
								sd.conn.SetWriteDeadline(s.Now().Add(10 * time.Second))
								continue
							}
							return
						}
					case "sleep":
						s.Sleep(time.Duration(op.DelayMs) * time.Millisecond)
					case "state":
						st := sd.conn.ConnectionState()
						if st.HandshakeComplete && (st.Version != sc.Version || st.CipherSuite != sc.Suite) {
							torn = fmt.Sprintf("ConnectionState reports a completed handshake with version %04x suite %04x (negotiable: %04x/%04x)", st.Version, st.CipherSuite, sc.Version, sc.Suite)
						}
					case "handshake":
						sd.conn.Handshake()
					case "setdl":
						setRDL(sd, s.Now().Add(time.Duration(op.DelayMs+500)*time.Millisecond), true)
					case "setrdl":
						setRDL(sd, s.Now().Add(time.Duration(op.DelayMs+500)*time.Millisecond), false)
					case "setwdl":
						d := time.Duration(op.DelayMs+500) * time.Millisecond
						if op.DelayMs == 1 {
							d = time.Microsecond // a deadline that has practically expired when the next Write starts
						}
						if t := s.Now().Add(d); sd.wdlMin.IsZero() || t.Before(sd.wdlMin) {
							sd.wdlMin = t
						}
						sd.conn.SetWriteDeadline(s.Now().Add(d))
					case "hello_request":
						// the server asks for a renegotiation: an (encrypted) HelloRequest handshake message
						if sd.conn.ConnectionState().HandshakeComplete {
							markAbrupt(sides[0]) // the connection will not end with an orderly close
							markAbrupt(sides[1])
							sd.conn.WriteRecord(22, []byte{0, 0, 0, 0})
							o.count("fault.hello_request_sent", 1)
						}
					case "key_update_kill":
						// TLS 1.3: ask the peer to update its keys, then drop the transport so that its reply cannot be written
						if sd.conn.ConnectionState().HandshakeComplete {
							markAbrupt(sides[0])
							markAbrupt(sides[1])
							sd.conn.WriteRecord(22, []byte{24, 0, 0, 1, 1})
							nets[tk.Side].Kill(false)
							o.count("fault.key_update_then_transport_closed", 1)
						}
					case "ccs_flood":
						// TLS 1.3: more middlebox-compatibility ChangeCipherSpec records than a receiver tolerates in a row
						// (they are ignored one by one; the receiver then gives up with an alert, while its writers are busy)
						if sd.conn.ConnectionState().HandshakeComplete {
							markAbrupt(sides[0])
							markAbrupt(sides[1])
							nets[tk.Side].Write(bytes.Repeat([]byte{20, 3, 3, 0, 1, 1}, 17+op.DelayMs%5))
							o.count("fault.ccs_flood", 1)
						}
					case "key_update_raw":
						// TLS 1.3: a KeyUpdate(update_requested) sent without moving on to the next sending key (a
						// misbehaving peer): the other side answers and switches keys while its writers are busy; whatever
						// this side sends afterwards no longer decrypts there
						if sd.conn.ConnectionState().HandshakeComplete {
							markAbrupt(sides[0])
							markAbrupt(sides[1])
							sd.conn.WriteRecord(22, []byte{24, 0, 0, 1, 1})
							o.count("fault.key_update_without_own_key_change", 1)
						}
					case "closewrite":
						if sd.closedAt < 0 {
							sd.closedAt = len(sd.writes)
						}
						sd.cwActive++
						err := sd.conn.CloseWrite()
						sd.cwActive--
						sd.cwDone++
						if sd.cwShutStep == 0 && (err == nil || !strings.Contains(err.Error(), "before handshake complete")) {
							// the write side is shut from here on, whether or not the alert could be delivered
							sd.cwShutStep = s.Steps
						}
						closeErr(sd, err)
					case "close":
						if sd.closedAt < 0 {
							sd.closedAt = len(sd.writes)
						}
						// (a Write of this side still in flight makes the close abrupt — but only after timedClose has
						// noted whether the connection was undisturbed until now: Close meeting a stalled Write is the
						// very situation its duration is judged in)
						sd.closeWithInFlight = sd.inFlight > 0
						sd.localClose = true
						closeErr(sd, timedClose(sd))
						return
					}
				}
			})
		}
		s.Run()
		o.count("probe.lock_ops", vsync.LockOps)
		o.count("probe.contended_lock_ops", vsync.ContendedOps)
		o.count("probe.multi_enabled_steps", s.MultiSteps)
		for _, p := range s.Panics() {
			o.Fail = Failf("c34.panic", panicSite(p.Stack), "task %s panicked: %v\n%s", p.Name, p.PanicVal, p.Stack)
		}
		if vsync.LockOps == 0 {
			fmt.Println("HARNESS-ERROR C34 engine A needs the sync shim overlay (bin/check builds it); package tls is using the real sync package")
			os.Exit(2)
		}
		if o.Fail == nil && writeAfterShut != "" {
			o.Fail = Failf("c34.write_after_closewrite", "a Write was acknowledged after CloseWrite had shut the write side (its bytes cannot be part of the stream the peer was given)", "%s", writeAfterShut)
		}
		if o.Fail == nil && ackAfterTimeout != "" {
			o.Fail = Failf("c34.ack_after_timeout", "a Write succeeded after an earlier Write on the connection had timed out", "%s", ackAfterTimeout)
		}
		kuOps := sc.Reframe != 0
		for _, tk := range sc.Tasks {
			for _, op := range tk.Ops {
				if op.Op == "key_update_raw" || op.Op == "key_update_kill" || op.Op == "hello_request" {
					kuOps = true
				}
			}
		}
		for side := 0; side < 2 && o.Fail == nil; side++ {
			sd := sides[side]
			// Close unblocks: once a Close call on a connection has returned, a Read blocked on that connection returns too
			if sd.blockedAfterClose > time.Second {
				o.Fail = Failf("c34.close_leaves_read_blocked", "a Read on the connection was still blocked long after Close had returned", "side %d: Close returned at %v, a Read stayed blocked for another %v (%v)", side, sd.closeRet.Sub(kit.SimEpoch), sd.blockedAfterClose, sd.readErr)
				break
			}
			// Close does not wait for a stalled Write: it either interrupts the writers or sends its alert under a 5 s guard
			// (a Read that is answering a KeyUpdate / renegotiating holds the write side legitimately: such runs are exempt)
			// (an application that moves the write deadline itself may replace that guard: exempt as well)
			movesWdl := false
			for _, tk := range sc.Tasks {
				for _, op := range tk.Ops {
					if tk.Side == side && (op.Op == "setdl" || op.Op == "setwdl") {
						movesWdl = true
					}
				}
			}
			if !kuOps && !movesWdl && sd.closeDur > 6*time.Second {
				o.Fail = Failf("c34.close_slow", "Close blocked for longer than its own 5 s guard (it waited for a stalled Write instead of interrupting it)", "side %d: Close took %v", side, sd.closeDur)
				break
			}
		}
		for side := 0; side < 2 && o.Fail == nil; side++ {
			if ea := sides[side].eofAgain; ea != "" {
				o.Fail = Failf("c34.eof_not_sticky", "the end of the inbound stream is reported to one Read only", "side %d: %s", side, ea)
			}
		}
		for side := 0; side < 2 && o.Fail == nil; side++ {
			if sp := sides[side].spurious; sp != "" {
				o.Fail = Failf("c34.spurious_timeout", "Read timed out before the read deadline set by the application (another call changed the read deadline)", "side %d: %s", side, sp)
			}
		}
		if o.Fail == nil && torn != "" {
			o.Fail = Failf("c34.torn", "ConnectionState observed inconsistent handshake state", "%s", torn)
		}
		if o.Fail == nil && len(s.Deadlock) > 0 {
			o.Fail = Failf("c34.deadlock", "tasks blocked forever although every call has a deadline", "blocked: %v", s.Deadlock)
		}
		if o.Fail == nil && (s.StepCapHit || s.TimeCapHit) {
			o.Fail = Failf("c34.noreturn", "calls did not return within the step/time budget", "stepcap=%v timecap=%v", s.StepCapHit, s.TimeCapHit)
		}
		for d := 0; d < 2; d++ {
			if rf := reframes[d]; rf != nil {
				for k, n := range rf.Fired {
					o.count(k, n)
				}
				// (a write deadline moved by the application can expire while Read is writing its KeyUpdate reply: that
				// write error is swallowed by design and leaves a cut or skipped record on the wire, which nobody can
				// open; the peer then answers with a fatal alert of its own, possibly into an expired deadline as well,
				// so the damage is not confined to the direction of the side that moved the deadline)
				wdlOps := false
				for _, tk := range sc.Tasks {
					for _, op := range tk.Ops {
						if op.Op == "setdl" || op.Op == "setwdl" {
							wdlOps = true
						}
					}
				}
				if rf.Lost && o.Fail == nil && !sides[0].abrupt && !sides[1].abrupt && !wdlOps {
					o.Fail = Failf("c34.reframe.sync", "a record of the application epoch does not open under the RFC 8446 key schedule", "direction %d", d)
				}
			}
		}
		bothDone := sides[0].conn.ConnectionState().HandshakeComplete && sides[1].conn.ConnectionState().HandshakeComplete
		if o.Fail == nil && bothDone {
			for side := 0; side < 2; side++ {
				rcv, snd := sides[side], sides[1-side]
				// Was the reader's failure the first thing that went wrong on this connection? (A failed Write, a Close
				// racing with a Write, a HelloRequest or a killed transport all come with their own, legitimate, errors.)
				first := func(sd *c34Side) bool { return !sd.abrupt || sd.abruptAt > rcv.readErrAt }
				if rcv.readErr == nil || rcv.localClose || !first(rcv) || !first(snd) {
					continue
				}
				// a sender that moves its write deadline while it has to answer KeyUpdate requests may cut its own reply
				// record (the error of that internal write is swallowed by design): what follows cannot be read
				sndWdl := false
				for _, tk := range sc.Tasks {
					for _, op := range tk.Ops {
						if tk.Side == 1-side && (op.Op == "setdl" || op.Op == "setwdl") {
							sndWdl = true
						}
					}
				}
				if sndWdl && sc.Reframe != 0 && !rcv.sticky {
					o.count("probe.inconclusive_sender_moved_write_deadline_under_key_updates", 1)
					continue
				}
				if rcv.sticky {
					o.Fail = Failf("c34.sticky_read_timeout", "Read keeps returning a timeout although the read deadline was moved into the future (inbound stream cut off)", "side %d: %v after %d bytes", side, rcv.readErr, len(rcv.recv))
					break
				}
				if !rcv.cleanEOF && !rcv.idleEnd {
					o.Fail = Failf("c34.stream_error", "the reader of an undisturbed direction failed (byte stream not preserved)", "side %d (version %04x suite %04x): Read returned %v after %d bytes", side, sc.Version, sc.Suite, rcv.readErr, len(rcv.recv))
					break
				}
			}
		}
		if o.Fail == nil {
			for side := 0; side < 2; side++ {
				rcv, snd := sides[side], sides[1-side]
				// "complete": the reader saw a clean EOF (close_notify), or nothing arrived any more for the whole patience
				// interval, and the sender was not cut short by a deadline or local Close race
				complete := (rcv.cleanEOF || rcv.idleEnd && bothDone && !rcv.localClose && !rcv.abrupt) && !snd.abrupt
				if f := checkTaggedStream(rcv.recv, snd.writes, complete); f != nil {
					f.Msg = fmt.Sprintf("direction %d→%d (version %04x suite %04x): %s", 1-side, side, sc.Version, sc.Suite, f.Msg)
					o.Fail = f
					break
				}
				if complete {
					o.count("probe.clean_eof_streams", 1)
				}
				o.count("probe.bytes_received", len(rcv.recv))
			}
		}
		finishOutcome(o, s)
		h := kit.NewHash64()
		h.WriteU64(s.TapeHash())
		b, _ := json.Marshal(sc.Tasks)
		h.Write(b)
		h.WriteString(fmt.Sprintf("%04x %04x %+v", sc.Version, sc.Suite, sc.Net))
		o.Distinct = h.Sum()
		o.Nontrivial = s.MultiSteps > 0
	})
	return o
}

func shrinkC34(scAny any) []any {
	sc := scAny.(*c34Scenario)
	var out []any
	cp := func() *c34Scenario {
		c := *sc
		c.Tasks = nil
		for _, t := range sc.Tasks {
			c.Tasks = append(c.Tasks, c34Task{Side: t.Side, Kind: t.Kind, Ops: append([]c34Op(nil), t.Ops...)})
		}
		c.Tape = append([]int(nil), sc.Tape...)
		return &c
	}
	for i := len(sc.Tasks) - 1; i >= 0; i-- {
		c := cp()
		c.Tasks = dropIndex(c.Tasks, i)
		c.Tape = nil
		out = append(out, c)
	}
	for i := range sc.Tasks {
		for k := len(sc.Tasks[i].Ops) - 1; k >= 0; k-- {
			c := cp()
			c.Tasks[i].Ops = dropIndex(c.Tasks[i].Ops, k)
			c.Tape = nil
			out = append(out, c)
		}
	}
	if sc.Net.Window != 0 || sc.Net.SegMode != 0 || sc.Net.LatMaxUs != 0 {
		c := cp()
		c.Net = NetCfg{}
		c.Tape = nil
		out = append(out, c)
	}
	// schedule tape: shorten, then zero chunks (invalid entries fall back to the lowest enabled task)
	if n := len(sc.Tape); n > 0 {
		c := cp()
		c.Tape = c.Tape[:n/2]
		out = append(out, c)
		for _, chunk := range []int{n / 4, n / 8} {
			if chunk < 1 {
				continue
			}
			for st := 0; st+chunk <= n && st < 8*chunk; st += chunk {
				c := cp()
				for i := st; i < st+chunk; i++ {
					c.Tape[i] = 0
				}
				out = append(out, c)
			}
		}
	}
	return out
}

func init() {
	register(&Prop{
		ID: "C34", Level: "exploration", Engine: "A (lockstep scheduler over the sync/atomic shim overlay of package tls, simnet, synctest bubble) + B (free-running goroutines in a synctest bubble, channel-based shim, race detector)",
		Rule: "seeded programs (1-3 writer tasks and 0-2 misc tasks per side plus one reader per side) over a seeded (version, suite) and transport (segmentation, latency, send window); the scheduler draws the running task at every lock, atomic and transport operation; non-trivial = at least one step had more than one enabled task; distinct = hash of (schedule tape, programs, transport)",
		Real:   []string{"tls.Conn Read/Write/Handshake/ConnectionState/SetDeadline/SetReadDeadline/SetWriteDeadline/CloseWrite/Close with their real locking (handshakeMutex, in/out halfConn mutexes, activeCall, handshakeStatus, Config.mutex)"},
		Stub:   []string{"sync.Mutex/RWMutex and sync/atomic of package tls are replaced by the simulator-aware shim (same semantics, scheduling points added)", "transport", "clock", "entropy"},
		Assume: []string{"one reader per direction (the order of bytes between concurrent Reads is not defined by the API)", "every blocking call has a deadline, as the property's precondition says", "interleavings are controlled at lock/atomic/transport granularity, not between plain memory accesses"},
		FaultKinds: []string{"probe.lock_ops", "probe.contended_lock_ops", "probe.multi_enabled_steps", "probe.clean_eof_streams", "fault.hello_request_sent", "fault.key_update_then_transport_closed", "fault.key_update_without_own_key_change", "fault.ccs_flood", "net.write_blocked_on_window", "net.read_deadline_expired", "net.write_deadline_expired", "net.short_read",
			"probe.raceB_runs", "probe.raceB_cancelled_handshakes"},
		NotInjected: "wire corruption is C25/C32; here the adversary is the schedule. No storage.",
		Gen:         genC34, New: func() any { return &c34Scenario{} }, Exec: execC34, Shrink: shrinkC34,
		QuickRuns: 12000, ThoroughRuns: 2000000,
	})
}
