package props

import (
	"bytes"
	"crypto/aes"
	"crypto/cipher"
	"crypto/hmac"
	"crypto/sha256"
	"crypto/sha512"
	"encoding/hex"
	"hash"
	"strings"

	"golang.org/x/crypto/chacha20poly1305"
	"verifsim/kit"
)

// Reference TLS 1.3 record protection written from RFC 8446 (sections 5.2,
// 5.3, 7.1, 7.2, 7.3) with the standard library only. It lets the harness act
// as a peer that frames its records in every way the RFC allows (padding,
// zero-length application_data records, content split over several records,
// KeyUpdate), which zcrypto's own sender never does.

func hkdfExpand(h func() hash.Hash, prk, info []byte, n int) []byte {
	var out, t []byte
	for i := byte(1); len(out) < n; i++ {
		m := hmac.New(h, prk)
		m.Write(t)
		m.Write(info)
		m.Write([]byte{i})
		t = m.Sum(nil)
		out = append(out, t...)
	}
	return out[:n]
}

func hkdfExpandLabel(h func() hash.Hash, secret []byte, label string, ctx []byte, n int) []byte {
	full := "tls13 " + label
	info := []byte{byte(n >> 8), byte(n), byte(len(full))}
	info = append(info, full...)
	info = append(info, byte(len(ctx)))
	info = append(info, ctx...)
	return hkdfExpand(h, secret, info, n)
}

type rec13 struct {
	suite  uint16
	h      func() hash.Hash
	hlen   int
	secret []byte
	aead   cipher.AEAD
	iv     []byte
	seq    uint64
}

func newRec13(suite uint16, secret []byte) *rec13 {
	r := &rec13{suite: suite, h: sha256.New, hlen: 32}
	if suite == 0x1302 {
		r.h, r.hlen = sha512.New384, 48
	}
	r.setSecret(secret)
	return r
}

func (r *rec13) setSecret(secret []byte) {
	r.secret = append([]byte(nil), secret...)
	keyLen := 16
	if r.suite == 0x1302 || r.suite == 0x1303 {
		keyLen = 32
	}
	key := hkdfExpandLabel(r.h, secret, "key", nil, keyLen)
	r.iv = hkdfExpandLabel(r.h, secret, "iv", nil, 12)
	if r.suite == 0x1303 {
		r.aead, _ = chacha20poly1305.New(key)
	} else {
		b, _ := aes.NewCipher(key)
		r.aead, _ = cipher.NewGCM(b)
	}
	r.seq = 0
}

// next switches to application_traffic_secret_N+1 (RFC 8446 section 7.2).
func (r *rec13) next() {
	r.setSecret(hkdfExpandLabel(r.h, r.secret, "traffic upd", nil, r.hlen))
}

func (r *rec13) nonce() []byte {
	n := append([]byte(nil), r.iv...)
	for i := 0; i < 8; i++ {
		n[11-i] ^= byte(r.seq >> (8 * uint(i)))
	}
	return n
}

// open decrypts one full record (header included) and strips the padding.
func (r *rec13) open(rec []byte) (content []byte, typ byte, ok bool) {
	if len(rec) < 5+16 || rec[0] != recAppData {
		return nil, 0, false
	}
	pt, err := r.aead.Open(nil, r.nonce(), rec[5:], rec[:5])
	if err != nil {
		return nil, 0, false
	}
	i := len(pt) - 1
	for i >= 0 && pt[i] == 0 {
		i--
	}
	if i < 0 {
		return nil, 0, false
	}
	r.seq++
	return pt[:i], pt[i], true
}

// seal produces a protected record carrying content of the inner type typ followed by pad zero bytes.
func (r *rec13) seal(typ byte, content []byte, pad int) []byte {
	inner := append(append([]byte(nil), content...), typ)
	inner = append(inner, make([]byte, pad)...)
	n := len(inner) + 16
	hdr := []byte{recAppData, 3, 3, byte(n >> 8), byte(n)}
	out := r.aead.Seal(hdr, r.nonce(), inner, hdr)
	r.seq++
	return out
}

// keyLogSecret finds "<label> <client_random> <secret>" in NSS key log output.
func keyLogSecret(log []byte, label string) []byte {
	for _, line := range strings.Split(string(log), "\n") {
		f := strings.Fields(line)
		if len(f) == 3 && f[0] == label {
			b, err := hex.DecodeString(f[2])
			if err == nil {
				return b
			}
		}
	}
	return nil
}

// reframe13 sits on one direction of a TLS 1.3 connection, opens the sender's
// application-epoch records with the traffic secret from the key log and
// re-emits the same content under the same keys in a different but legal framing.
type reframe13 struct {
	Suite  uint16
	Label  string // key log label of this direction's traffic secret
	KeyLog *bytes.Buffer
	Rng    *kit.Rng
	Rate   int // 1/Rate of the records are re-framed
	KeyUpdates int // number of KeyUpdate messages the harness may still inject
	Tickets    int // server direction: number of times the harness may still inject a flight of NewSessionTicket messages

	in, out *rec13
	buf     []byte
	Lost    bool // a record of the application epoch did not open: the filter went transparent
	Fired   map[string]int
	useless int
}

func (f *reframe13) fire(k string) {
	if f.Fired == nil {
		f.Fired = map[string]int{}
	}
	f.Fired[k]++
}

func (f *reframe13) Closed() []byte { b := f.buf; f.buf = nil; return b }

func (f *reframe13) Write(p []byte) ([]byte, int) {
	if f.Lost {
		return p, kit.CutNone
	}
	f.buf = append(f.buf, p...)
	var out []byte
	for len(f.buf) >= 5 {
		n := int(f.buf[3])<<8 | int(f.buf[4])
		if len(f.buf) < 5+n {
			break
		}
		rec := append([]byte(nil), f.buf[:5+n]...)
		f.buf = f.buf[5+n:]
		if rec[0] != recAppData {
			out = append(out, rec...)
			continue
		}
		if f.in == nil {
			sec := keyLogSecret(f.KeyLog.Bytes(), f.Label)
			if sec == nil {
				out = append(out, rec...) // handshake epoch
				continue
			}
			cand := newRec13(f.Suite, sec)
			if _, _, ok := cand.open(rec); !ok {
				out = append(out, rec...) // still the handshake epoch
				continue
			}
			f.in = newRec13(f.Suite, sec)
			f.out = newRec13(f.Suite, sec)
		}
		content, typ, ok := f.in.open(rec)
		if !ok {
			f.Lost = true
			out = append(out, rec...)
			out = append(out, f.buf...)
			f.buf = nil
			break
		}
		out = append(out, f.emit(typ, content)...)
		if typ == recHandshake && len(content) >= 5 && content[0] == 24 {
			// the sender's own KeyUpdate: both the sender and (after reading it) the receiver move on
			f.in.next()
			f.out.next()
		}
	}
	return out, kit.CutNone
}

func (f *reframe13) empty() []byte {
	pad := 0
	if f.Rng.Bool() {
		pad = []int{1, 2, 15, 16, 255, 1000}[f.Rng.Intn(6)]
	}
	f.fire("reframe.empty_record")
	if pad > 0 {
		f.fire("reframe.empty_record_padded")
	}
	f.useless++
	return f.out.seal(recAppData, nil, pad)
}

func (f *reframe13) emit(typ byte, content []byte) []byte {
	r := f.Rng
	if f.Rate <= 0 || !r.Chance(1, f.Rate) {
		f.useless = 0
		return f.out.seal(typ, content, 0)
	}
	var out []byte
	if typ == recAppData && f.KeyUpdates > 0 && r.Chance(1, 3) {
		f.KeyUpdates--
		req := byte(r.Intn(2))
		out = append(out, f.out.seal(recHandshake, []byte{24, 0, 0, 1, req}, 0)...)
		f.out.next()
		f.useless++
		f.fire("reframe.key_update_injected")
		if req == 1 {
			f.fire("reframe.key_update_requested")
		}
	}
	if typ == recAppData && f.Tickets > 0 && f.Label == "SERVER_TRAFFIC_SECRET_0" && r.Chance(1, 2) {
		// Several post-handshake messages in one record (RFC 8446 5.1 allows coalescing; servers that issue two
		// tickets at once do it), optionally with the last message continued in a second record. The tickets are
		// opaque to the client: fabricated ones are as good as real ones (RFC 8446 4.6.1).
		f.Tickets--
		var flight []byte
		for k := r.Range(2, 3); k > 0; k-- {
			var b []byte
			b = append(b, 0, 0, byte(r.Intn(256)), byte(r.Intn(256))) // ticket_lifetime
			b = append(b, r.Bytes(4)...)                                // ticket_age_add
			nonce := r.Bytes(r.Intn(9))
			b = append(b, byte(len(nonce)))
			b = append(b, nonce...)
			tk := r.Bytes(16 + r.Intn(120))
			b = append(b, byte(len(tk)>>8), byte(len(tk)))
			b = append(b, tk...)
			b = append(b, 0, 0) // no extensions
			flight = append(flight, 4, byte(len(b)>>16), byte(len(b)>>8), byte(len(b)))
			flight = append(flight, b...)
		}
		if r.Chance(1, 3) {
			k := 1 + r.Intn(len(flight)-1)
			out = append(out, f.out.seal(recHandshake, flight[:k], 0)...)
			out = append(out, f.out.seal(recHandshake, flight[k:], 0)...)
			f.fire("reframe.ticket_flight_fragmented")
		} else {
			out = append(out, f.out.seal(recHandshake, flight, 0)...)
		}
		f.useless++
		f.fire("reframe.coalesced_tickets")
	}
	if typ == recAppData {
		for k := r.Pick([]int{3, 3, 1, 1}); k > 0 && f.useless < 6; k-- {
			out = append(out, f.empty()...)
		}
	}
	pad := 0
	if r.Chance(1, 2) {
		pad = []int{1, 2, 3, 16, 17, 255, 256, 4000}[r.Intn(8)]
		if len(content)+1+pad > 16385 {
			pad = 16385 - len(content) - 1
		}
		if pad > 0 {
			f.fire("reframe.padding")
		}
	}
	if typ == recAppData && len(content) >= 2 && r.Chance(1, 2) {
		k := 1 + r.Intn(len(content)-1)
		if r.Chance(1, 3) {
			k = []int{1, len(content) - 1}[r.Intn(2)]
		}
		out = append(out, f.out.seal(typ, content[:k], 0)...)
		if r.Chance(1, 3) && f.useless < 6 {
			out = append(out, f.empty()...)
		}
		out = append(out, f.out.seal(typ, content[k:], pad)...)
		f.fire("reframe.split")
	} else {
		out = append(out, f.out.seal(typ, content, pad)...)
	}
	if len(content) > 0 || typ != recAppData {
		f.useless = 0
	}
	if typ == recAppData && r.Chance(1, 4) && f.useless < 6 {
		out = append(out, f.empty()...)
	}
	return out
}
