package props

import (
	"fmt"
	"strings"
	"sync"
	"sync/atomic"
	"testing"
	"time"

	"github.com/anishathalye/porcupine"
	"github.com/zmap/zcrypto/tls"
	"verifsim/kit"
)

// C35, concurrent part (engine B): 2-4 client goroutines issue seeded
// operations on one LRU client session cache inside a synctest bubble, paced by
// seeded simulated delays, under the race detector. Invocation and return are
// stamped with a global event sequence number and the recorded history is
// checked for linearizability against the sequential LRU model with porcupine.

type lruConcOp struct {
	Op     string `json:"op"`
	Key    int    `json:"key"`
	PaceUs int    `json:"pace_us"`
}

func genLRUConc(r *kit.Rng, sc *lruScenario) {
	sc.Capacity = r.Range(1, 3)
	sc.Keys = sc.Capacity + r.Range(1, 2)
	nt := r.Range(2, 4)
	total := 0
	for t := 0; t < nt; t++ {
		var ops []lruConcOp
		for k := r.Range(2, 10); k > 0 && total < 36; k-- {
			op := []string{"put", "get", "putnil"}[r.Pick([]int{4, 4, 1})]
			ops = append(ops, lruConcOp{Op: op, Key: r.Intn(sc.Keys), PaceUs: []int{0, 0, 1, 7, 300}[r.Intn(5)]})
			total++
		}
		sc.Conc = append(sc.Conc, ops)
	}
}

type lruIn struct {
	Op  string
	Key int
	Val int
}
type lruOut struct {
	Val int
	OK  bool
}

// lruPorcupineModel is the sequential specification: state = "cap;k=v,k=v,..." in most-recently-used-first order.
func lruPorcupineModel(capacity int) porcupine.Model {
	parse := func(s string) (order []int, val map[int]int) {
		val = map[int]int{}
		for _, e := range strings.Split(s, ",") {
			if e == "" {
				continue
			}
			var k, v int
			fmt.Sscanf(e, "%d=%d", &k, &v)
			order = append(order, k)
			val[k] = v
		}
		return
	}
	enc := func(order []int, val map[int]int) string {
		var p []string
		for _, k := range order {
			p = append(p, fmt.Sprintf("%d=%d", k, val[k]))
		}
		return strings.Join(p, ",")
	}
	return porcupine.Model{
		Init: func() interface{} { return "" },
		Step: func(state, input, output interface{}) (bool, interface{}) {
			order, val := parse(state.(string))
			m := &lruModel{cap: capacity, order: order, val: val}
			in, out := input.(lruIn), output.(lruOut)
			switch in.Op {
			case "put":
				m.put(in.Key, in.Val)
				return true, enc(m.order, m.val)
			case "putnil":
				m.del(in.Key)
				return true, enc(m.order, m.val)
			default:
				v, ok := m.get(in.Key)
				if ok != out.OK || (ok && v != out.Val) {
					return false, state
				}
				return true, enc(m.order, m.val)
			}
		},
		DescribeOperation: func(input, output interface{}) string {
			in, out := input.(lruIn), output.(lruOut)
			if in.Op == "get" {
				return fmt.Sprintf("get(%d) -> (%d,%v)", in.Key, out.Val, out.OK)
			}
			return fmt.Sprintf("%s(%d,#%d)", in.Op, in.Key, in.Val)
		},
	}
}

func execLRUConc(t *testing.T, sc *lruScenario) *Outcome {
	o := &Outcome{Counters: map[string]int{}, FreeRunning: true}
	cache := tls.NewLRUClientSessionCache(sc.Capacity)
	// distinct values: every Get result is attributable to one Put
	var states []*tls.ClientSessionState
	ids := map[*tls.ClientSessionState]int{}
	nput := 0
	for _, ops := range sc.Conc {
		for _, op := range ops {
			if op.Op == "put" {
				nput++
			}
		}
	}
	for i := 0; i < nput; i++ {
		s := &tls.ClientSessionState{}
		states = append(states, s)
		ids[s] = i + 1
	}
	var seq int64
	perTask := make([][]porcupine.Operation, len(sc.Conc))
	finished := false
	leak := kit.Bubble(t, func() {
		var wg sync.WaitGroup
		next := 0
		for ti, ops := range sc.Conc {
			ti, ops := ti, ops
			base := next
			for _, op := range ops {
				if op.Op == "put" {
					next++
				}
			}
			wg.Add(1)
			go func() {
				defer wg.Done()
				vi := base
				for oi, op := range ops {
					if op.PaceUs > 0 {
						time.Sleep(time.Duration(op.PaceUs)*time.Microsecond + time.Duration(ti*50+oi)*time.Nanosecond)
					}
					in := lruIn{Op: op.Op, Key: op.Key}
					var out lruOut
					var call, ret int64
					if !sc.NoStamps {
						call = atomic.AddInt64(&seq, 1)
					}
					switch op.Op {
					case "put":
						in.Val = vi + 1
						cache.Put(keyName(op.Key, sc.EmptyKey), states[vi])
						vi++
					case "putnil":
						cache.Put(keyName(op.Key, sc.EmptyKey), nil)
					default:
						s, ok := cache.Get(keyName(op.Key, sc.EmptyKey))
						out = lruOut{Val: ids[s], OK: ok}
					}
					if !sc.NoStamps {
						ret = atomic.AddInt64(&seq, 1)
					}
					perTask[ti] = append(perTask[ti], porcupine.Operation{ClientId: ti, Input: in, Call: call, Output: out, Return: ret})
				}
			}()
		}
		wg.Wait()
		finished = true
	})
	var hist []porcupine.Operation
	for _, l := range perTask {
		hist = append(hist, l...)
	}
	o.count("probe.conc_histories", 1)
	o.count("probe.conc_operations", len(hist))
	o.Steps = len(hist)
	o.Nontrivial = len(hist) > 3
	h := kit.NewHash64()
	h.WriteString(fmt.Sprintf("%+v", sc.Conc))
	o.LogHash = h.Sum() // what each Get returns is schedule dependent in engine B; the fingerprint is the scenario
	o.Distinct = h.Sum()
	if !finished {
		o.Fail = Failf("lru.conc.blocked", "cache operations never returned", "%.300s", leak)
		return o
	}
	// attribution (both modes): a Get may only return a session that some client Put under that very key
	putKey := map[int]int{}
	for _, op := range hist {
		if in := op.Input.(lruIn); in.Op == "put" {
			putKey[in.Val] = in.Key
		}
	}
	for _, op := range hist {
		in, out := op.Input.(lruIn), op.Output.(lruOut)
		if in.Op != "get" || !out.OK {
			continue
		}
		if out.Val == 0 {
			o.Fail = Failf("lru.conc.nil_hit", "Get reported a hit with a nil session", "client %d get(%d)", op.ClientId, in.Key)
			return o
		}
		if k, ok := putKey[out.Val]; !ok || k != in.Key {
			o.Fail = Failf("lru.conc.attribution", "Get returned a session that was never stored under that key", "client %d get(%d) -> #%d stored under key %d", op.ClientId, in.Key, out.Val, k)
			return o
		}
	}
	res := porcupine.Ok
	if sc.NoStamps {
		o.count("probe.conc_unstamped_histories", 1)
	} else {
		res = porcupine.CheckOperationsTimeout(lruPorcupineModel(sc.Capacity), hist, 20*time.Second)
	}
	switch res {
	case porcupine.Illegal:
		var d []string
		m := lruPorcupineModel(sc.Capacity)
		for _, op := range hist {
			d = append(d, fmt.Sprintf("c%d[%d,%d] %s", op.ClientId, op.Call, op.Return, m.DescribeOperation(op.Input, op.Output)))
		}
		o.Fail = Failf("lru.linearizability", "concurrent history is not linearizable with respect to the bounded-LRU model", "capacity %d: %s", sc.Capacity, strings.Join(d, "; "))
	case porcupine.Unknown:
		o.count("probe.linearizability_inconclusive", 1)
	default:
		if !sc.NoStamps {
			o.count("probe.linearizable_histories", 1)
		}
	}
	for _, rr := range kit.RaceDelta() {
		o.count("probe.race_reports", 1)
		if rr.InHarness {
			o.count("probe.race_in_harness", 1)
			continue
		}
		if rr.InRepo && o.Fail == nil {
			o.Fail = Failf("lru.race", "data race: "+rr.Sig, "%s", rr.Text)
		}
	}
	return o
}
