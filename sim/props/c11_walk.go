package props

import (
	"encoding/json"
	"fmt"
	"sort"
	"strings"
	"testing"
	"time"

	"github.com/zmap/zcrypto/verifier"
	zx509 "github.com/zmap/zcrypto/x509"
	"verifsim/kit"
)

// C11 (engine B): WalkChains / WalkChainsAsync on seeded graphs inside a
// synctest bubble with seeded channel sizes and consumer pacing (so that the
// walker goroutine is exercised both never blocking and blocking on every
// send), under the race detector. Results are compared with an independent
// enumeration over the read-only accessor view; channel closure and walker
// termination are checked as bounded liveness.

type c11Scenario struct {
	Seed     uint64 `json:"seed"`
	PKI      *gPKI  `json:"pki"`
	Roots    []int  `json:"roots"`   // certificates added as roots
	InGraph  []int  `json:"in_graph"` // certificates added to the graph
	Start    int    `json:"start"`    // certificate to walk from (may be outside the graph)
	ChanSize int    `json:"chan_size"`
	PaceUs   []int  `json:"pace_us"` // consumer delay before each receive (cycled)
}

func genC11(seed uint64, tier string) any {
	r := kit.NewRng(seed)
	deep := r.Chance(1, 4)
	maxID := 9
	if deep {
		maxID = 14
	}
	sc := &c11Scenario{Seed: seed, PKI: genPKI(r, maxID, deep)}
	p := sc.PKI
	if deep {
		// depth-limit boundary: a chain of 7..13 certificates below the root
		n := r.Range(8, 14)
		for len(p.Idents) < n {
			p.Idents = append(p.Idents, gIdent{Name: fmt.Sprintf("CA %d", len(p.Idents)), Key: (len(p.Idents) * 5) % 16})
			k := len(p.Idents) - 1
			p.Certs = append(p.Certs, gCert{Issuer: k - 1, Subject: k, SignKey: k - 1, IsCA: true, PathLen: -1, Serial: 500 + k})
		}
		// identities beyond 16 reuse keys with other names: keep (name, key) unique
	}
	// denser cross-signing in a part of the runs: many alternative paths, so that the walker has to block on its channel
	if r.Chance(1, 2) {
		n := len(p.Idents)
		for k := r.Intn(2*n + 1); k > 0; k-- {
			a, b := r.Intn(n), r.Intn(n)
			p.Certs = append(p.Certs, gCert{Issuer: a, Subject: b, SignKey: a, IsCA: r.Chance(9, 10), PathLen: -1, Serial: 700 + k})
		}
	}
	for i, c := range p.Certs {
		in := r.Chance(9, 10)
		if in {
			sc.InGraph = append(sc.InGraph, i)
			if c.Issuer == c.Subject && r.Chance(5, 6) || r.Chance(1, 12) {
				sc.Roots = append(sc.Roots, i)
			}
		}
	}
	// insertion order: issuer-first (as generated) or shuffled, so that edges are also attached by the fix-up of
	// dangling edges before the walk
	if r.Chance(1, 2) {
		perm := r.Perm(len(sc.InGraph))
		sh := make([]int, len(sc.InGraph))
		for i, j := range perm {
			sh[i] = sc.InGraph[j]
		}
		sc.InGraph = sh
	}
	// start: usually the deepest / a random certificate, sometimes one that is not in the graph
	sc.Start = r.Intn(len(p.Certs))
	if deep {
		sc.Start = len(p.Certs) - 1 - r.Intn(2)
	}
	sc.ChanSize = []int{0, -1, 1, 2, 3, 8, 64}[r.Intn(7)]
	for k := r.Range(1, 5); k > 0; k-- {
		sc.PaceUs = append(sc.PaceUs, []int{0, 0, 1, 50, 3000, 2000000}[r.Intn(6)])
	}
	return sc
}

type refEdge struct {
	cert   *zx509.Certificate
	fp     string
	issuer *verifier.GraphNode
	root   bool
}

// refPaths enumerates the permitted root-terminated paths from the accessor
// view. strict = every condition of the property holds with the conservative
// reading (required paths); !strict = the superset a conforming walker may
// also return (root certificate exempt from the path-length check, up to 11
// certificates).
func refPaths(g *verifier.Graph, start refEdge, strict bool) []string {
	var out []string
	allEdges := g.Edges()
	maxLen := 9
	if !strict {
		maxLen = 11
	}
	var walk func(chain []*zx509.Certificate, fps []string, cur *verifier.GraphNode, last refEdge)
	walk = func(chain []*zx509.Certificate, fps []string, cur *verifier.GraphNode, last refEdge) {
		if last.root {
			out = append(out, strings.Join(fps, ">"))
			return
		}
		if cur == nil || len(chain) >= maxLen {
			return
		}
		// the certificates issued to the current identity, taken from the graph's edge list (not from the
		// walker's own parent index), grouped by issuer node; issuer-less edges are grouped under nil
		parents := map[*verifier.GraphNode][]*verifier.GraphEdge{}
		for _, e := range allEdges {
			if v := verifier.VerifEdge(e); v.Child == cur {
				parents[v.Issuer] = append(parents[v.Issuer], e)
			}
		}
		for issuerNode, edges := range parents {
			// never move to an issuer identity that already occurs in the chain
			seen := false
			if issuerNode != nil {
				for _, c := range chain {
					if string(c.RawSubject) == string(issuerNode.SubjectAndKey.RawSubject) && string(c.RawSubjectPublicKeyInfo) == string(issuerNode.SubjectAndKey.RawSubjectPublicKeyInfo) {
						seen = true
					}
				}
			}
			if seen {
				continue
			}
			for _, e := range edges {
				v := verifier.VerifEdge(e)
				c := e.Certificate
				if !v.Root && !(c.BasicConstraintsValid && c.IsCA) {
					continue // intermediates must be CA certificates
				}
				if c.BasicConstraintsValid && c.MaxPathLen >= 0 && len(chain)-1 > c.MaxPathLen {
					if strict || !v.Root {
						continue // path-length limit exceeded
					}
				}
				nc := append(append([]*zx509.Certificate(nil), chain...), c)
				nf := append(append([]string(nil), fps...), fmt.Sprintf("%x", []byte(c.FingerprintSHA256)))
				walk(nc, nf, v.Issuer, refEdge{cert: c, issuer: v.Issuer, root: v.Root})
			}
		}
	}
	walk([]*zx509.Certificate{start.cert}, []string{start.fp}, start.issuer, start)
	sort.Strings(out)
	return out
}

func chainKey(ch zx509.CertificateChain) string {
	var f []string
	for _, c := range ch {
		f = append(f, fmt.Sprintf("%x", []byte(c.FingerprintSHA256)))
	}
	return strings.Join(f, ">")
}

func execC11(t *testing.T, scAny any, keepLog bool) *Outcome {
	sc := scAny.(*c11Scenario)
	o := &Outcome{Counters: map[string]int{}}
	p := sc.PKI
	g := verifier.NewGraph()
	isRoot := map[int]bool{}
	for _, i := range sc.Roots {
		isRoot[i] = true
	}
	inGraph := map[int]bool{}
	for _, i := range sc.InGraph {
		inGraph[i] = true
		if isRoot[i] {
			g.AddRoot(p.build(i).Z)
		} else {
			g.AddCert(p.build(i).Z)
		}
	}
	// a fresh parse of the start certificate: the walker writes ValidSignature into it
	startZ, _ := zx509.ParseCertificate(p.build(sc.Start).K.DER)
	start := refEdge{cert: startZ, fp: fmt.Sprintf("%x", []byte(startZ.FingerprintSHA256))}
	if e := g.FindEdge(startZ.FingerprintSHA256); e != nil {
		v := verifier.VerifEdge(e)
		start.issuer, start.root = v.Issuer, v.Root
	} else {
		o.count("probe.start_outside_graph", 1)
		// outside the graph: the issuer is the node with the issuer's name whose key verifies the certificate
		for _, n := range g.Nodes() {
			if string(n.SubjectAndKey.RawSubject) != string(startZ.RawIssuer) {
				continue
			}
			for id := range p.Idents {
				ic := identCert(p.Idents[id])
				if string(ic.Std.RawSubjectPublicKeyInfo) == string(n.SubjectAndKey.RawSubjectPublicKeyInfo) && p.verifies(sc.Start, id) {
					start.issuer = n
				}
			}
		}
	}
	required := refPaths(g, start, true)
	allowed := map[string]bool{}
	for _, k := range refPaths(g, start, false) {
		allowed[k] = true
	}
	longest := 0
	for k := range allowed {
		if n := strings.Count(k, ">") + 1; n > longest {
			longest = n
		}
	}
	o.count(fmt.Sprintf("probe.longest_path_%02d", longest), 1)
	o.count("probe.required_paths", len(required))
	issuerless := map[string]bool{}
	for _, e := range g.Edges() {
		if verifier.VerifEdge(e).Issuer == nil {
			issuerless[fmt.Sprintf("%x", []byte(e.Certificate.FingerprintSHA256))] = true
		}
	}
	for _, k := range required {
		if i := strings.LastIndex(k, ">"); i >= 0 && issuerless[k[i+1:]] {
			o.count("probe.path_ends_at_issuerless_root", 1)
		}
	}

	var async []string
	var syncRes []string
	closed := false
	finished := false
	var simElapsed time.Duration
	leak := kit.Bubble(t, func() {
		t0 := time.Now()
		// synchronous API
		s2, _ := zx509.ParseCertificate(p.build(sc.Start).K.DER)
		for _, ch := range g.WalkChains(s2) {
			syncRes = append(syncRes, chainKey(ch))
		}
		// asynchronous API with seeded channel size and consumer pacing
		s3, _ := zx509.ParseCertificate(p.build(sc.Start).K.DER)
		ch := g.WalkChainsAsync(s3, verifier.WalkOptions{ChannelSize: sc.ChanSize})
		for i := 0; ; i++ {
			if d := sc.PaceUs[i%len(sc.PaceUs)]; d > 0 {
				time.Sleep(time.Duration(d)*time.Microsecond + time.Duration(i)*time.Nanosecond)
			}
			c, ok := <-ch
			if !ok {
				closed = true
				break
			}
			async = append(async, chainKey(c))
			if len(async) > 100000 {
				break
			}
		}
		simElapsed = time.Since(t0)
		finished = true
	})
	o.SimTime = simElapsed
	sort.Strings(async)
	sort.Strings(syncRes)
	h := kit.NewHash64()
	h.WriteString(strings.Join(async, "|"))
	h.WriteString(strings.Join(syncRes, "|"))
	o.LogHash = h.Sum()
	sh := kit.NewHash64()
	b, _ := json.Marshal(sc)
	sh.Write(b)
	o.Distinct = sh.Sum()
	o.Nontrivial = len(required) > 0 || len(allowed) > 0
	o.Steps = len(async)

	check := func(name string, got []string) *Failure {
		seen := map[string]bool{}
		for _, k := range got {
			if seen[k] {
				return Failf("c11.duplicate", "a chain was returned twice", "%s: %s", name, shortPath(k))
			}
			seen[k] = true
			if !allowed[k] {
				return Failf("c11.extra", "a returned chain is not a permitted root-terminated path", "%s: %s (length %d)", name, shortPath(k), strings.Count(k, ">")+1)
			}
		}
		for _, k := range required {
			if !seen[k] {
				return Failf("c11.missing", "a permitted path was not returned", "%s: %s (length %d; returned %d of %d required)", name, shortPath(k), strings.Count(k, ">")+1, len(got), len(required))
			}
		}
		return nil
	}
	switch {
	case !finished || !closed:
		o.Fail = Failf("c11.closure", "WalkChainsAsync did not close its channel after the consumer drained it", "finished=%v closed=%v bubble: %.300s", finished, closed, leak)
	case leak != "":
		o.Fail = Failf("c11.leak", "a walker goroutine was still blocked when the consumer had finished", "%.400s", leak)
	default:
		if f := check("WalkChainsAsync", async); f != nil {
			o.Fail = f
		} else if f := check("WalkChains", syncRes); f != nil {
			o.Fail = f
		} else if strings.Join(async, "|") != strings.Join(syncRes, "|") {
			o.Fail = Failf("c11.syncasync", "WalkChains and WalkChainsAsync returned different sets", "sync %d chains, async %d chains (channel size %d)", len(syncRes), len(async), sc.ChanSize)
		}
	}
	for _, rr := range kit.RaceDelta() {
		o.count("probe.race_reports", 1)
		if rr.InHarness {
			o.count("probe.race_in_harness", 1)
			continue
		}
		if rr.InRepo && o.Fail == nil {
			o.Fail = Failf("c11.race", "data race: "+rr.Sig, "%s", rr.Text)
		}
	}
	return o
}

func shortPath(k string) string {
	parts := strings.Split(k, ">")
	for i, p := range parts {
		if len(p) > 8 {
			parts[i] = p[:8]
		}
	}
	return strings.Join(parts, ">")
}

func shrinkC11(scAny any) []any {
	sc := scAny.(*c11Scenario)
	var out []any
	for i := len(sc.InGraph) - 1; i >= 0; i-- {
		c := *sc
		c.InGraph = dropIndex(sc.InGraph, i)
		out = append(out, &c)
	}
	for i := range sc.Roots {
		if len(sc.Roots) > 1 {
			c := *sc
			c.Roots = dropIndex(sc.Roots, i)
			out = append(out, &c)
		}
	}
	if len(sc.PaceUs) > 1 || sc.PaceUs[0] != 0 {
		c := *sc
		c.PaceUs = []int{0}
		out = append(out, &c)
	}
	if sc.ChanSize != 0 {
		c := *sc
		c.ChanSize = 0
		out = append(out, &c)
	}
	return out
}

func init() {
	register(&Prop{
		ID: "C11", Level: "exploration", Engine: "B (walker goroutine and consumer free-running in a synctest bubble, race detector) with an independent path enumeration as reference",
		Rule: "seeded graphs (layered CA DAGs, cross-sign cycles, same-name different-key CAs, path-length constraints, non-CA intermediates, chains of 7-13 certificates around the depth limit, dangling issuers, bad signatures) x start certificate inside or outside the graph x channel size {default, 1, 2, 3, 8, 64} x seeded consumer pacing (0 .. 2 s of simulated time per receive); non-trivial = at least one permitted path exists; distinct = hash of the scenario",
		Real:   []string{"Graph.WalkChains, Graph.WalkChainsAsync, the walker goroutine and its channel, canAddToChain", "Graph.AddCert/AddRoot to build the graph"},
		Stub:   []string{"consumer (paced by simulated time)", "reference enumeration over the verif-tagged accessor view", "certificates from the fixed key pool"},
		Assume: []string{"'never revisits a (subject, key) pair' is modelled on the issuer identities moved to", "paths of at most 9 certificates must be returned, paths of 10-11 certificates and root certificates exceeding their own path-length limit may be returned, anything else is a violation"},
		FaultKinds: []string{"probe.start_outside_graph", "probe.required_paths", "probe.race_reports", "probe.race_in_harness", "probe.path_ends_at_issuerless_root", "probe.longest_path_09", "probe.longest_path_10", "probe.longest_path_11"},
		NotInjected: "the only environment here is the schedule between walker and consumer (channel size, pacing); no transport or storage",
		EngineB:     true,
		Gen:         genC11, New: func() any { return &c11Scenario{} }, Exec: execC11, Shrink: shrinkC11,
		QuickRuns: 2400, ThoroughRuns: 240000,
	})
}
